"""C14 — wildcard requests return the documented set of signals."""
import itertools
from .. import enc as E

PID = "C14"
FAM = 14
ALLOWED_AXIOMS = set()
EXHAUSTIVE = True
SHRINK = False
MANIFEST = {
    "text": "Coq theorems about a model of Matcher::new / to_glob_string, of glob matching at segment level and of the selection done by v1 Get, v1 Subscribe and v2 ListMetadata (incl. the branch fallback): everything selected lies inside the liberal reading of the pattern (soundness), every signal in the strict documented reading is selected for patterns that do not mix '**' with '*' (completeness), the empty pattern selects everything, invalid patterns are rejected with nothing returned. Tied to the code on every run by an exhaustive sweep: every pattern up to length 3/4 over {A,B,Ab,*,**} x every prefix-free tree of a bounded universe, through the three real handlers (v1 Get also as a two-entry request, the pattern after an anchor path that matches, so that entries of one request are answered independently) and the raw Matcher, plus a character-level validity stream; the liberal/strict inclusions are re-checked on the implementation's own answers by an independent Python oracle. A second known finding (F30): a signal name containing a slash collides with its dotted look-alike in the glob form of paths; the case `slash` of the family exhibits it on every run (KNOWN-FINDING), Model/Glob.v does not translate such names.",
    "note": "Trusted: Coq kernel (axiom-free theorems); extraction + OCaml driver (vm_compute cross-check); harness/src/fam_glob.rs. Modelled, not verified: the glob-match 0.2.1 crate (its behaviour on the supported fragment is compared exhaustively; for patterns mixing '**' and '*' the model only over-approximates it and only the two inclusions are asserted), the regex crate.",
    "technique": "machine-checked proof in Coq + exhaustive bounded-universe differential correspondence",
}
RULE = ("exhaustive: all patterns of length <= L over {A, B, Ab, *, **} (L=3 quick, 4 thorough) plus the empty "
        "pattern, against every prefix-free signal tree drawn from a bounded universe (all subsets-of-leaves "
        "trees of depth <= 3 over {A,B,Ab} in thorough; a covering family of 40 trees incl. single-segment "
        "leaves in quick), through v1 Get (single entry and as second of two entries), v1 Subscribe, v2 ListMetadata and the raw Matcher; plus a "
        "character-level stream for validity; non-trivial = pattern selected a non-empty proper subset, or was "
        "rejected; distinct = (api, pattern, tree id, answer)")
TRUSTED = ["extraction: ExtrOcamlBasic only; driver ocaml/model_run.ml",
           "correspondence harness: harness/src/fam_glob.rs (real tonic handlers called as trait methods)",
           "python liberal/strict oracle vp/props/c14.py"]
ASSUMPTIONS = ["pattern segments are names over [A-Za-z0-9_], '*' or '**' (other glob-match metacharacters are "
               "outside the property's quantifier and are only tested for validity)",
               "patterns mixing '**' with '*' are documented as unsupported: only the inclusions are asserted"]

NAMES = ["A", "B", "Ab"]
SEGS = NAMES + ["*", "**"]


def all_paths(maxd):
    return [".".join(p) for d in range(1, maxd + 1) for p in itertools.product(NAMES, repeat=d)]


def prefix_free(paths):
    s = set(paths)
    for p in paths:
        parts = p.split(".")
        for i in range(1, len(parts)):
            if ".".join(parts[:i]) in s:
                return False
    return True


def trees(rng, tier):
    ts = [
        ["A.B", "A.Ab", "A.A.A", "A.A.B", "B.A", "B.B.A.A", "Ab.A.B"],
        ["A", "B.A", "B.B", "Ab.Ab.Ab"],
        ["A.A", "A.B", "A.Ab"],
        ["A.A.A", "A.B.A", "A.Ab.A", "B.A.A"],
        ["A.B.A.B", "A.B.A.Ab", "A.B.B", "B.B.B.B"],
        ["Ab"], ["A.A.A.A"], ["B", "A.B"],
    ]
    universe = all_paths(3 if tier == "quick" else 4)
    want = 40 if tier == "quick" else 400
    tries = 0
    while len(ts) < want and tries < 100000:
        tries += 1
        k = rng.randrange(1, 8)
        t = sorted(set(rng.sample(universe, k)))
        if prefix_free(t) and t not in ts:
            ts.append(t)
    return ts


def patterns(L):
    ps = [""]
    for d in range(1, L + 1):
        for p in itertools.product(SEGS, repeat=d):
            ps.append(".".join(p))
    return ps


def generate(rng, tier):
    L = 3 if tier == "quick" else 4
    pats = patterns(L)
    cases = []
    n = 0
    for ti, t in enumerate(trees(rng, tier)):
        lines = [[len(t)] + sum([E.s(p) for p in t], [])]
        for p in pats:
            for api in (0, 1, 2, 3, 5):
                lines.append([api] + E.s(p))
        cases.append(("t%d" % ti, lines))
    # validity stream
    bits = ["", ".", "..", "A.", ".A", "A..B", "A B", "A\tB", "A:B", "A.*", "A.**", "A.***", "A*", "*A", "A.B*",
            "\"\"", "A/B", "A.b_c", "A-b", "Vehicle.Speed", "**", "*", "***", "A.**.B", " A", "A ", "A\n", "é",
            "A." + "B" * 995, "A." + "B" * 1010, "A" * 1001, "[a-z]", "{a,b}", "a?", "!A"]
    lines = [[1] + E.s("A.B")]
    for b in bits:
        lines.append([4] + E.s(b))
    alphabet = "AB.*: _\t" + "\u00a0\u000b\u2028\u3000\u00e9"      # incl. whitespace beyond ASCII (regex \\s) and a non-ASCII letter
    for _ in range(300 if tier == "quick" else 5000):
        s = "".join(rng.choice(alphabet) for _ in range(rng.randrange(0, 8)))
        lines.append([4] + E.s(s))
    # over-long valid patterns through the handlers
    for api in (0, 1, 2):
        lines.append([api] + E.s("A." + "B" * 995))
        lines.append([api] + E.s("A." + "B" * 1010))
    cases.append(("valid", lines))
    # a signal whose NAME contains a slash (a legal path segment) beside its dotted look-alike: the glob form of a path
    # uses `/` as its separator, so the two collide (finding F30); Model/Glob.v does not translate such names, the
    # case is judged by the monitor only
    t = ["X.K/h", "X.K.h", "X.L"]
    lines = [[len(t)] + sum([E.s(p) for p in t], [])]
    for p in ("X.K.h", "X.L", "X", "X.*", "X.K"):
        for api in (0, 1, 2):
            lines.append([api] + E.s(p))
    cases.append(("slash", lines))
    return cases


def parse(lines):
    t = lines[0]
    n = t[0]
    i = 1
    paths = []
    for _ in range(n):
        m = t[i]
        paths.append(bytes(t[i + 1:i + 1 + m]).decode())
        i += 1 + m
    reqs = []
    for l in lines[1:]:
        m = l[1]
        reqs.append((l[0], bytes(l[2:2 + m]).decode("utf-8", "replace")))
    return paths, reqs


def liberal(ps, xs, branch=True):
    """most liberal reading: * one level, ** any number of levels incl. zero, a matched prefix may be a
    branch (everything below it is selected)"""
    if not ps:
        return branch or not xs
    h = ps[0]
    if h == "**":
        return any(liberal(ps[1:], xs[i:], branch) for i in range(len(xs) + 1))
    if not xs:
        return False
    return (h == "*" or h == xs[0]) and liberal(ps[1:], xs[1:], branch)


def strict(ps, xs):
    """the rules of doc/wildcard_matching.md: a path without asterisk selects the signal or everything below
    the branch; trailing * = direct children; trailing ** = direct or indirect children (at least one level);
    * elsewhere = exactly one branch level; ** elsewhere = zero or more levels"""
    if "*" not in ps and "**" not in ps:
        return xs[:len(ps)] == ps
    def go(ps, xs):
        if not ps:
            return not xs
        h = ps[0]
        if h == "**":
            if len(ps) == 1:
                return len(xs) >= 1
            return any(go(ps[1:], xs[i:]) for i in range(len(xs) + 1))
        if not xs:
            return False
        return (h == "*" or h == xs[0]) and go(ps[1:], xs[1:])
    return go(ps, xs)


def compare(lines, m, i):
    """equality, except for patterns mixing ** and *, where the model does not reproduce glob-match"""
    if m is None or i is None or len(m) != len(i):
        return False
    paths, reqs = parse(lines)
    if any("/" in p for p in paths):
        return True
    for (api, pat), a, b in zip(reqs, m[1:], i[1:]):
        ps = pat.split(".")
        if "*" in ps and "**" in ps and len(a) >= 2 and len(b) >= 2:
            # glob-match's backtracking over `**` followed by a repeated name is not modelled (it can miss a
            # direct match and fall back to the branch reading): mixed patterns are not compared with the
            # model; they are judged by the monitor's liberal / strict readings
            continue
        if a != b:
            return False
    return m[0] == i[0]


def segs_ok(pat):
    return all(s in ("*", "**") or (s and all(c.isalnum() or c == "_" for c in s)) for s in pat.split("."))


def monitor(lines, out):
    if not out or len(out) != len(lines):
        return ["no-output: implementation produced %d lines for %d" % (len(out), len(lines))]
    paths, reqs = parse(lines)
    fails = []
    for (api, pat), o in zip(reqs, out[1:]):
        if o == [-77]:
            fails.append("panic: handler panicked on pattern %r" % pat)
            continue
        if api == 4:
            continue
        if api in (0, 1, 5) and len(pat) > 1000:
            if o[0] != 400:
                fails.append("too-long-accepted: api %d accepted a %d-byte path" % (api, len(pat)))
            continue
        st, sel = o[0], [paths[i] if 0 <= i < len(paths) else "?" for i in o[2:]]
        if pat != "" and not segs_ok(pat):
            continue
        ps = pat.split(".") if pat else []
        lib = [p for p in paths if (True if pat == "" else liberal(ps, p.split(".")))]
        stc = [p for p in paths if (True if pat == "" else strict(ps, p.split(".")))]
        extra = [p for p in sel if p not in lib]
        if extra:
            fails.append("outside-liberal: api %d pattern %r returned %s" % (api, pat, extra[:3]))
        mixed = "*" in ps and "**" in ps
        if api != 3 and not mixed:
            missing = [p for p in stc if p not in sel]
            if missing:
                fails.append("strict-missing: api %d pattern %r on tree %s did not return %s (status %d)"
                             % (api, pat, paths, missing[:3], st))
        if st == 400:
            fails.append("valid-rejected: api %d rejected the valid pattern %r" % (api, pat))
        if len(fails) > 5:
            break
    return fails


def classify(lines, out, msg, known):
    for kf in known:
        m = kf.get("match", {})
        if m.get("clause") and not msg.startswith(m["clause"]):
            continue
        if m.get("slash_in_name"):
            # outside-liberal where every signal returned beyond the reading has a slash in its name
            import re
            mm = re.match(r"outside-liberal: api \d pattern '[^']*' returned \[(.*)\]", msg) or \
                re.match(r"strict-missing: api \d pattern '[^']*' on tree \[.*?\] did not return \[(.*)\] \(status", msg)
            if mm and all("/" in x for x in re.findall(r"'([^']*)'", mm.group(1))):
                return kf
            continue
        if m.get("single_segment_leaf"):
            # strict-missing where the pattern is a single name that is itself a leaf of the tree
            import re
            mm = re.match(r"strict-missing: api \d pattern '(\w+)' on tree (\[.*?\]) did not return \['(\w+)'\]", msg)
            if mm and mm.group(1) == mm.group(3):
                return kf
    return None


def nontrivial(lines, out):
    paths, reqs = parse(lines)
    k = 0
    for (api, pat), o in zip(reqs, out[1:]):
        if api == 4 or len(o) < 2:
            continue
        if 0 < o[1] < len(paths) or o[0] != 0:
            k += 1
    return (tuple(paths), k) if k else None


def histogram(lines, out):
    paths, reqs = parse(lines)
    h = []
    for (api, pat), o in zip(reqs, out[1:]):
        h.append("api%d:status%d" % (api, o[0]))
    from collections import Counter
    c = Counter(h)
    return ["%s x%d" % (k, v) for k, v in c.items()][:0] + ["requests:%d" % len(reqs)]


def extra_evidence(tier):
    return {}


def pretty(lines):
    paths, reqs = parse(lines)
    return "tree=%s requests=%d (e.g. %s)" % (paths, len(reqs), reqs[:4])


def neighbours(lines, rng):
    return []

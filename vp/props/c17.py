"""C17 — loading a VSS file (VSS family: generated documents + single-fault mutations)."""
from .. import vss as VS

PID = "C17"
FAM = 17
SHRINK = False
ALLOWED_AXIOMS = {"Classical_Prop.classic", "ClassicalDedekindReals.sig_not_dec",
                  "ClassicalDedekindReals.sig_forall_dec",
                  "FunctionalExtensionality.functional_extensionality_dep"}
MANIFEST = {"text": "TODO", "note": "TODO"}
RULE = "TODO"
TRUSTED = []
ASSUMPTIONS = []
N_QUICK, N_THOROUGH = 400, 10000
FAULT = {}


def generate(rng, tier, n=None):
    n = n or (N_QUICK if tier == "quick" else N_THOROUGH)
    cases = []
    for i in range(n):
        root, fault = VS.gen_case(rng)
        FAULT["v%d" % i] = fault
        cases.append(("v%d" % i, [VS.doc_line(root)]))
    return cases


def monitor(lines, out):
    return VS.monitor_lines(lines, out)


def nontrivial(lines, out):
    return hash(tuple(lines[0])) if out and out[0][:1] == [0] and len(out) > 2 else None


def histogram(lines, out):
    h = ["result:" + ("loaded" if out and out[0][:1] == [0] else "rejected" if out and out[0] == [1] else "other")]
    for l in out or []:
        if l and l[0] == 500:
            p, e = VS.dec_entry(l)
            h.append("datatype:" + VS.DT_NAMES[e["dtype"]])
    return h


def pretty(lines):
    return [VS.root_of_line(lines[0])[1]]


def neighbours(lines, rng):
    return []

"""C17 — loading a VSS file (VSS family: generated documents + single-fault mutations)."""
from .. import vss as VS
from .. import common as C

PID = "C17"
FAM = 17
SHRINK = False
ALLOWED_AXIOMS = {"Classical_Prop.classic", "ClassicalDedekindReals.sig_not_dec",
                  "ClassicalDedekindReals.sig_forall_dec",
                  "FunctionalExtensionality.functional_extensionality_dep"}
MANIFEST = {
    "text": "Coq model of the VSS loader (Model/Vss.v: the entry tree as serde hands it over, typed extraction of min/max/allowed/default from JSON values incl. integer ranges and f64->f32 rounding via Flocq, recursive flattening into dot-joined paths, the ordered map, main.rs's start-up sequence on the broker model). Theorems: what is registered is exactly the sensor/attribute/actuator nodes reachable through branches, under the dot-joined names of their ancestors (soundness and completeness against an inductive reachability relation; branches never become signals); each entry carries the declared data type, entry type, description, comment, unit, change type (documented default otherwise) and the typed min/max/allowed/default; integers are taken over exactly and only inside the declared type's range, floats only when finite, other JSON kinds never; a leaf without data type or description, a branch without children, a node without valid type, or a min/max/allowed/default that does not fit rejects the whole document; an attribute's accepted default is its first value. Tied to the code on every run: generated documents (every data type incl. arrays, optional fields, boundary values, unknown keys) and single-fault mutations are loaded by vss::parse_vss_from_str and by the extracted model and diffed field by field; main.rs's add_entry/update_entries sequence is replayed on the real broker; an oracle that re-reads the JSON text with an independent parser compares the result with the declared ground truth. Second part: the REAL databroker binary, built from /repo's working tree, is started on the document (--vss: main.rs read_metadata_file itself, which the in-process replay only mirrors) and read back through kuksa.val.v1 Get: the signals it serves, their data / entry types and initial values must be the model's, and are judged against the document.",
    "note": "Trusted: Coq kernel; Flocq's 4 standard-library axioms (f32 rounding); extraction + OCaml driver (vm_compute cross-check); harness/src/fam_vss.rs (replays read_metadata_file's loop, which lives in the binary crate's main.rs and cannot be called directly); vp/vss.py (generator, Python json as the independent parser). Modelled, not verified: JSON lexing and serde's derive glue (required / unknown / duplicate keys) - the model starts from the entry tree and is told per node which keys were present and valid; duplicate keys are not generated.",
}
RULE = ("seeded documents: a root branch with a generated tree (depth 1-4, fan-out 1-4, names sharing prefixes), leaves "
        "of all 24 data types x sensor/attribute/actuator with optional unit, comment, min, max, allowed, default and "
        "change type, values at type boundaries (int ranges, u64 max, 2^63, 2^64 as float, f32 max, 1e-50, 1e300), "
        "unknown keys; 40% of the documents carry one mutation out of 18 classes (leaf without datatype, branch "
        "without children, min/max/allowed/default of wrong JSON kind or out of range incl. f32 overflow, invalid or "
        "missing type/description/datatype/changetype, allowed not an array, and harmless ones: leaf with children, "
        "branch with datatype, default on a sensor, empty branch); plus a grid of one-leaf documents: every data "
        "type x {min, max, allowed, default} x every class of unfitting value (wrong JSON kind, one past either "
        "end of the range, the next wider type's maximum, fraction, array/scalar confusion, f32 overflow) and x the "
        "values at the edge of the type; non-trivial = loaded document with at least two "
        "entries; distinct = distinct documents")
TRUSTED = ["extraction: ExtrOcamlBasic only; driver ocaml/model_run.ml",
           "correspondence harness: harness/src/fam_vss.rs (vss::parse_vss_from_str, then the add_entry / update_entries loop of main.rs; family 19: the real databroker binary spawned per document, read back over kuksa.val.v1 on loopback)",
           "python: vp/vss.py (document generator; ground truth re-read from the JSON text with Python's json module)"]
ASSUMPTIONS = ["number classification follows serde_json: non-negative integers below 2^64 are u64, negative ones down to -2^63 are i64, everything else and every literal with a fraction or exponent is an f64 (correctly rounded: feature float_roundtrip, fix F26)",
               "a registration refused by the broker (invalid path name) is logged and skipped by main.rs; such names are not generated"]
N_QUICK, N_THOROUGH = 400, 10000
FAULT = {}


def generate(rng, tier, n=None):
    n = n or (N_QUICK if tier == "quick" else N_THOROUGH)
    cases = []
    for i in range(n):
        root, fault = VS.gen_case(rng)
        FAULT["v%d" % i] = fault
        cases.append(("v%d" % i, [VS.doc_line(root)]))
    for j, (root, what) in enumerate(VS.grid_cases(rng)):
        FAULT["g%d" % j] = what
        cases.append(("g%d" % j, [VS.doc_line(root)]))
    return cases


def monitor(lines, out):
    return VS.monitor_lines(lines, out)


def nontrivial(lines, out):
    return hash(tuple(lines[0])) if out and out[0][:1] == [0] and len(out) > 2 else None


def histogram(lines, out):
    h = ["result:" + ("loaded" if out and out[0][:1] == [0] else "rejected" if out and out[0] == [1] else "other")]
    for l in out or []:
        if l and l[0] == 500:
            p, e = VS.dec_entry(l)
            h.append("datatype:" + VS.DT_NAMES[e["dtype"]])
    return h


def pretty(lines):
    return [VS.root_of_line(lines[0])[1]]


def neighbours(lines, rng):
    return []


class Loaded:
    """the main part: vss::parse_vss_from_str and the start-up sequence replayed in process"""
    FAM = 17
    generate = staticmethod(generate)
    monitor = staticmethod(monitor)
    nontrivial = staticmethod(nontrivial)
    histogram = staticmethod(histogram)
    pretty = staticmethod(pretty)
    neighbours = staticmethod(neighbours)


class Binary:
    """the REAL databroker binary started on the document (`--vss file`: main.rs read_metadata_file, the code the
    in-process replay only mirrors) and read back through kuksa.val.v1 Get("**"): which signals it serves, their
    data and entry types, the initial values.  The model's prediction is its family-17 output projected to that."""
    FAM = 19
    MODEL_FAM = 17
    CROSS_MAX = 0
    ENV = {"VERIF_DATABROKER_BIN": C.DATABROKER_BIN, "VERIF_WORK_DIR": C.WORK}

    @staticmethod
    def prepare():
        rc, out = C.build_databroker_bin()
        if rc != 0:
            raise C.CheckFailure("the databroker binary does not build from /repo's working tree: " + out[-1500:])

    @staticmethod
    def generate(rng, tier):
        n = 60 if tier == "quick" else 1500
        cases = []
        for i in range(n):
            root, fault = VS.gen_case(rng)
            cases.append(("b%d" % i, [VS.doc_line(root)]))
        grid = VS.grid_cases(rng)
        for j, (root, what) in enumerate(grid[:: max(1, len(grid) // (40 if tier == "quick" else 600))]):
            cases.append(("bg%d" % j, [VS.doc_line(root)]))
        return cases

    @staticmethod
    def compare(lines, m, i):
        return VS.expected_binary(m) == VS.dec_binary(i) and not (i and i[0][0] < 0)

    @staticmethod
    def monitor(lines, out):
        return VS.monitor_binary(lines, out)

    @staticmethod
    def nontrivial(lines, out):
        return hash(tuple(lines[0])) if out and out[0][:1] == [0] and len(out) > 4 else None

    @staticmethod
    def histogram(lines, out):
        return ["binary:" + ("served" if out and out[0][:1] == [0] else "refused" if out and out[0] == [1] else "other")]

    pretty = staticmethod(pretty)
    neighbours = staticmethod(neighbours)


PARTS = [Loaded, Binary]

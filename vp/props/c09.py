"""C09 — history family, profile W_ACT (see vp/hist.py and vp/props/c01.py)."""
from .. import hist as H
from . import c01 as B

PID = "C09"
FAM = 1
ALLOWED_AXIOMS = {"Classical_Prop.classic", "ClassicalDedekindReals.sig_not_dec",
                  "ClassicalDedekindReals.sig_forall_dec",
                  "FunctionalExtensionality.functional_extensionality_dep"}
MANIFEST = {
    "text": 'Coq theorems over the broker model: actuate either fails without any effect or delivers exactly one request, value unchanged, to the registered, available, unexpired provider that claimed the id after all checks passed; batch_actuate forwards nothing unless every element passes every check and every addressed actuator has a live owner, and then forwards a permutation of the requested changes; stored values are never altered. Tied to the code by histories with several recording providers, duplicates, unknown ids, sensors, invalid values, partial permissions, provider loss and expiry, comparing every provider inbox after every operation, plus scripted routing scenarios (2-3 providers with disjoint actuator sets, one lost and not yet removed by housekeeping, batches naming live / lost / unowned actuators, a sensor, unknown ids and ill-typed values in every position); an all-or-nothing / exactly-once / right-owner monitor judges the implementation. Second part: kuksa.val.v2 OpenProviderStream on the real tonic server of the databroker (loopback): providers claim through ProvideActuationRequest (identifiers by id, by path, mixed), the BatchActuateStreamRequests arriving on the real streams are the inboxes the clauses judge, providers publish through PublishValuesRequest; modelled by Api.v2_provide / Api.v2_stream_publish (theorems c09_stream_claim_is_core, c09_stream_claim_refused_no_effect, c09_stream_publish_is_core). Also: actuation through the kuksa.val.v2 Actuate / BatchActuate handlers with identifiers by id and by path mixed (c09_handler_batch_pairs: element k of the core batch is the id element k names with the value element k carries; c09_handler_batch_served, c09_handler_batch_refused_no_effect, c09_handler_actuate_served); twin values (the same number in another kind) for one actuator in one batch; a provider behind the OpenProviderStream handler called in process that reads its stream lazily (the 10-slot channel fills up: requests wait for room, they are not dropped).',
    "note": "Trusted: Coq kernel; the 4 standard-library axioms that enter through Flocq (used by validate's float comparisons) as printed by Print Assumptions; extraction + OCaml driver (vm_compute cross-check each run); harness/src/fam_hist.rs and hook H3 (verif_housekeeping_step); the Python monitors. Modelled, not verified: tokio broadcast (ring with capacity rounded up to a power of two, Lagged skipping) and RwLock, HashMap iteration order (outputs are sorted), the gRPC handlers on top of AuthorizedAccess (exercised by the handler-level checks), SystemTime (a timestamp is canonicalised to the operation during which it was taken; expiry is crossed in real time at a TICK).",
}
PROPS = set("C09,C02".split(","))
WEIGHTS = H.W_ACT
RULE = B.RULE
TRUSTED = B.TRUSTED
ASSUMPTIONS = B.ASSUMPTIONS


def routing_scenario(rng):
    """several providers with disjoint actuator sets, one of which is lost (stream dropped or token expired) and
    not yet removed by housekeeping; batches that name live, lost and unowned actuators, sensors, unknown ids and
    ill-typed values in every position"""
    from .. import enc as E
    L = [[H.PERM, 0] + E.s(H.ALL_SCOPE), [H.PERM, 1] + E.s(H.ALL_SCOPE), [H.PERM, 0] + E.s(H.ALL_SCOPE),
         [H.PERM, 0] + E.s("actuate:Vehicle.Act0 actuate:Vehicle.Act1 actuate:Vehicle.Act2 read")]
    n = rng.randrange(4, 8)
    from . import c02 as V2
    types = [rng.choice([4, 4, 4, 6, 1, 10]) for _ in range(n)]
    for i in range(n):
        L.append([H.ADD, 0] + E.s("Vehicle.Act%d" % i) + [types[i], rng.randrange(3), 2, 0, 0, 0])

    def good(i):
        """a valid value for actuator i and the number / truth value it stands for"""
        t = types[i] if 0 <= i < n else 4
        if t == 1:
            b = rng.random() < 0.5
            return E.val(E.BOOL, b), b
        x = rng.randrange(100)
        return {4: E.val(E.I32, x), 6: E.val(E.U32, x), 10: E.val(E.F32, V2.F(float(x)))}[t], x

    def twin(i, x):
        """the same number (or truth value) in another kind: ill-typed for actuator i, and printed like the valid one"""
        t = types[i]
        if t == 1:
            return E.val(E.STR, "true" if x else "false")
        alts = [E.val(E.I32, x), E.val(E.U32, x), E.val(E.I64, x), E.val(E.U64, x), E.val(E.F32, V2.F(float(x))),
                E.val(E.F64, V2.D(float(x))), E.val(E.STR, str(x))]
        own = {4: 0, 6: 1, 10: 4}[t]
        return rng.choice([a for k, a in enumerate(alts) if k != own])

    L.append([H.ADD, 0] + E.s("Vehicle.Sensor") + [4, 1, 0, 0, 0, 0])
    sensor = n
    ids = list(range(n))
    rng.shuffle(ids)
    k = rng.randrange(1, n - 1)
    own = {0: sorted(ids[:k]), 1: sorted(ids[k:n - 1])}       # provider handle 0 (principal 0), 1 (principal 1, expiring)
    unowned = ids[n - 1:]
    third = rng.random() < 0.5 and len(own[0]) > 1
    if third:
        own[2] = [own[0].pop()]
    order = sorted(own)
    prov_p = {0: 0, 1: 1, 2: 2}
    for h in order:
        named = list(own[h])
        if rng.random() < 0.3:
            named.insert(rng.randrange(len(named) + 1), rng.choice(own[h]))     # an actuator named twice in one claim
        L.append([H.PROVIDE, prov_p[h], len(named)] + named)
    L.append([H.DUMP])
    act = lambda p, i, v=None: [H.ACTUATE, p, i] + (v or good(i)[0])
    batch = lambda p, xs: [H.BATCH, p, len(xs)] + sum(([i] + (v or good(i)[0]) for i, v in xs), [])
    ok = lambda i: (i, None)
    bad_value = lambda i: (i, rng.choice([E.val(E.STR, "x"), E.val(E.I64, 2**40), [0], E.val(E.BOOL, True)]))
    caller = lambda: rng.choice([0, 0, 2, 3])

    def some_batches(lost):
        out = []
        for _ in range(rng.randrange(2, 6)):
            live = [i for h in own if h not in lost for i in own[h]]
            dead = [i for h in lost for i in own[h]]
            parts = []
            parts += [ok(i) for i in rng.sample(live, min(len(live), rng.randrange(0, 3)))]
            c = rng.random()
            if dead and c < 0.6:
                parts.append(ok(rng.choice(dead)))
            elif c < 0.7:
                parts.append(ok(rng.choice(unowned)))
            elif c < 0.8:
                parts.append(ok(sensor))
            elif c < 0.87:
                parts.append(ok(n + 5))
            elif c < 0.95 and live:
                parts.append(bad_value(rng.choice(live)))
            if rng.random() < 0.3 and live:
                parts.append(ok(rng.choice(live)))          # possibly a duplicate id
            if rng.random() < 0.3 and live:
                # the same actuator twice: a valid value and its twin of another kind (same number, same text)
                i = rng.choice(live)
                v, x = good(i)
                parts += [(i, v), (i, twin(i, x))]
            rng.shuffle(parts)
            if not parts:
                continue
            out += [batch(caller(), parts), [H.DUMP]]
            if rng.random() < 0.4:
                out += [act(caller(), rng.choice(live + dead + unowned + [sensor])), [H.DUMP]]
        return out

    L += some_batches(set())
    lost = set()
    if rng.random() < 0.5:
        L.append([H.TICK])
        lost.add(1)
    else:
        h = rng.choice(order)
        L.append([H.PROVDOWN, h])
        lost.add(h)
    L += some_batches(lost)
    L += [[H.CLEANUP], [H.DUMP]]
    for h in lost:
        del own[h]
    L += some_batches(set())
    return L


def slow_provider_scenario(rng):
    """a provider that has stopped reading for a while: its 10-slot channel fills up with actuation requests; the
    next request for it has to wait for room (the provider reads one message when nothing else can move) - it may
    not be dropped, and a batch that also names a healthy provider's actuator stays all-or-nothing"""
    from .. import enc as E
    L = [[H.PERM, 0] + E.s(H.ALL_SCOPE), [H.PERM, 0] + E.s(H.ALL_SCOPE)]
    for i in range(3):
        L.append([H.ADD, 0] + E.s("Vehicle.L.Act%d" % i) + [4, rng.randrange(3), 2, 0, 0, 0])
    slow_first = rng.random() < 0.5
    L.append([H.LPROV, 0, 1, 3, 0])                            # the slow provider: actuator 0 (by id)
    L.append([H.LPROV, 1, 1, 3, 1] if rng.random() < 0.5 else [H.PROVIDE, 1, 1, 1])   # the healthy one: actuator 1
    L.append([H.DUMP])
    k = rng.choice([9, 10, 10, 10, 11, 12])
    for j in range(k):
        L.append([H.ACTUATE, 0, 0, E.I32, j])                  # unread: they pile up in the provider's channel
    order = [(1, 100), (0, 200)] if not slow_first else [(0, 200), (1, 100)]
    L.append([H.BATCH, 0, 2] + sum(([i, E.I32, v] for i, v in order), []))
    L.append([H.DUMP])
    L.append([H.ACTUATE, 0, 0, E.I32, 300])
    L.append([H.BATCH, 0, 2, 1, E.I32, 101, 0, E.I32, 201])
    L.append([H.DUMP])
    return L


def generate(rng, tier, n=None, **kw):
    cases = B.generate(rng, tier, weights=WEIGHTS, n=n, **GEN_KW)
    k = 60 if tier == "quick" else 1200
    return cases + [("route%d" % i, routing_scenario(rng)) for i in range(k)] + \
        [("slow%d" % i, slow_provider_scenario(rng)) for i in range(12 if tier == "quick" else 100)]


GEN_KW = {}


def monitor(lines, out):
    return H.monitor(lines, out, PROPS)


nontrivial = B.nontrivial
histogram = B.histogram
pretty = B.pretty
neighbours = B.neighbours


class Core:
    """routing through the in-process API with recording providers"""
    FAM = 1
    generate = staticmethod(generate)
    monitor = staticmethod(monitor)
    nontrivial = staticmethod(nontrivial)
    histogram = staticmethod(histogram)
    pretty = staticmethod(pretty)
    neighbours = staticmethod(neighbours)


class Stream(Core):
    """routing through kuksa.val.v2 OpenProviderStream on the databroker's own tonic server (loopback): providers
    claim through ProvideActuationRequest (identifiers by id, by path, mixed) and what arrives on their streams as
    BatchActuateStreamRequest is the inbox the clauses judge; they also publish through PublishValuesRequest"""

    @staticmethod
    def generate(rng, tier):
        return [("st%d" % i, H.stream_scenario(rng)) for i in range(40 if tier == "quick" else 800)]

    @staticmethod
    def histogram(lines, out):
        return ["op:" + (H.OPN[l[0]] if 0 <= l[0] < len(H.OPN) else "?") for l in lines]


PARTS = [Core, Stream]

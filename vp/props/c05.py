"""C05 — a scope string grants exactly the signals it names."""
import itertools, re, time
from .. import enc as E

PID = "C05"
FAM = 5
ALLOWED_AXIOMS = set()
EXHAUSTIVE = True
SHRINK = False
MANIFEST = {
    "text": "Coq theorems about a character-level model of the scope grammar (parse_whitespace_separated), of TryFrom<Claims> and of the can_* decisions: the grammar accepts exactly action[:seg(.seg)*] chunks and one bad chunk invalidates the token; a path without '*' covers exactly the node and everything below; with '*' every pattern segment matches exactly one level; a literal segment is never matched partially; each write right needs a scope of its own action while read is implied by any action. Tied to the code on every run by an exhaustive universe (all scope paths up to depth 3/4 over {A,Ab,B,B2,*} x all signal paths up to depth 4/5 x 4 actions, through the real Permissions::try_from and can_*), multi-scope and malformed character-level streams, with an independent regex/string oracle as monitor.",
    "note": "Trusted: Coq kernel (theorems are axiom-free); extraction + OCaml driver (vm_compute cross-check each run); harness/src/fam_scope.rs; the Python oracle. Modelled, not verified: the `regex` crate and the regular expressions built by glob::to_regex_string (the model states their language on well-formed signal paths; the exhaustive universe compares them). JWT decoding is C06's.",
    "technique": "machine-checked proof in Coq + exhaustive bounded-universe differential correspondence",
}
RULE = ("exhaustive: every scope path of depth <= D over {A, Ab, B, B2, *} (D=3 quick, 4 thorough) under "
        "every action, queried with every signal path of depth <= D+1 over {A, Ab, B, B2} for all four "
        "rights; plus seeded multi-scope claims (1-4 scopes, with and without paths, expired or not) and "
        "a character-level malformed stream (digits, lower-case starts, empty segments, '::', '**', tabs and "
        "newlines, unknown actions); non-trivial = claim accepted and at least one right granted and one "
        "denied, or claim rejected; distinct = (scope string, verdict vector hash)")
TRUSTED = ["extraction: ExtrOcamlBasic only; driver ocaml/model_run.ml",
           "correspondence harness: harness/src/fam_scope.rs (Permissions::try_from(Claims) + can_*)",
           "python oracle vp/props/c05.py (regular expressions + string prefix rules)"]
ASSUMPTIONS = ["signal paths are well-formed dotted names; scope strings are ASCII",
               "the lone pattern '*' is excluded from the oracle (property text)"]

NAMES = ["A", "Ab", "B", "B2"]
SEGS = NAMES + ["*"]
ACTIONS = ["read", "actuate", "provide", "create"]
NOW = int(time.time())
FUT = NOW + 400 * 86400
PAST = NOW - 3600


def paths(maxd):
    out = []
    for d in range(1, maxd + 1):
        for p in itertools.product(NAMES, repeat=d):
            out.append(".".join(p))
    return out


def mk_line(scope, exp, queries):
    l = [NOW, exp] + E.s(scope)
    for a, p in queries:
        l += [a] + E.s(p)
    return l


def generate(rng, tier):
    D = 3 if tier == "quick" else 4
    ps = paths(D + 1)
    cases = []
    n = 0
    allq = [(a, p) for p in ps for a in range(4)]
    for d in range(1, D + 1):
        for pat in itertools.product(SEGS, repeat=d):
            act = ACTIONS[n % 4]
            cases.append(("x%d" % n, [mk_line("%s:%s" % (act, ".".join(pat)), FUT, allq)]))
            n += 1
    # realistic names
    vs = ["Vehicle.Speed", "Vehicle.SpeedLimit", "Vehicle.Speed.X", "Vehicle", "Vehicle.Cabin.Door.Row1.Left",
          "Vehicle.Cabin.Door.Row2.Left", "Vehicle.Cabin", "Vehic", "Vehicle.ADAS.ABS", "Vehicle.ADAS"]
    vq = [(a, p) for p in vs for a in range(4)]
    for pat in ["Vehicle.Speed", "Vehicle", "Vehicle.*", "Vehicle.*.Door", "*.Speed", "Vehicle.Cabin.Door.Row2",
                "Vehicle.Cabin.Door.*.Left", "Vehicle.Cabin.*.*.Left", "*.*", "*", "Vehicle.ADAS.ABS", "Vehic"]:
        for act in ACTIONS:
            cases.append(("v%d" % n, [mk_line("%s:%s" % (act, pat), FUT, vq)]))
            n += 1
    # multi-scope claims
    nm = 400 if tier == "quick" else 5000
    someq = rng.sample(allq, 200) + vq
    for _ in range(nm):
        k = rng.randrange(1, 5)
        chunks = []
        for _ in range(k):
            a = rng.choice(ACTIONS)
            if rng.random() < 0.2:
                chunks.append(a)
            else:
                d = rng.randrange(1, 4)
                chunks.append(a + ":" + ".".join(rng.choice(SEGS) for _ in range(d)))
        sep = rng.choice([" ", "  ", "\t", "\n", " \t "])
        sc = sep.join(chunks)
        if rng.random() < 0.2:
            sc = " " + sc + " "
        exp = PAST if rng.random() < 0.15 else FUT
        cases.append(("m%d" % n, [mk_line(sc, exp, someq)]))
        n += 1
    # malformed stream: single-fault mutations of valid claims
    bad_bits = ["", ":", "::", ".", "..", "*", "**", "a", "1", "A.", ".A", "A..B", "A.b", "A.1", "A.B2", "A.B9",
                "A_b", "A-b", "A b", "A:B", "*A", "A*", "A.**", "**.A", "A.*.", "Vehicle.Speed:", "é"]
    for b in bad_bits:
        for act in ACTIONS + ["", "Read", "write", "read,actuate", "reads"]:
            for sc in (act + ":" + b, act + b, "read:A " + act + ":" + b, act + ":" + b + " read:A"):
                cases.append(("b%d" % n, [mk_line(sc, FUT, vq[:8] + allq[:8])]))
                n += 1
    nr = 300 if tier == "quick" else 5000
    alphabet = "AaBb019.:* \tz_" + "\u00a0\u2003\u000b\u0085\u3000"      # incl. whitespace beyond ASCII (split_whitespace)
    for _ in range(nr):
        base = rng.choice(["read:A.B", "actuate:Ab.*", "provide", "create:A read:B2", "read:*.B"])
        s = list(base)
        for _ in range(rng.randrange(1, 3)):
            op = rng.randrange(3)
            pos = rng.randrange(len(s) + 1)
            if op == 0:
                s.insert(pos, rng.choice(alphabet))
            elif op == 1 and s:
                s.pop(min(pos, len(s) - 1))
            elif s:
                s[min(pos, len(s) - 1)] = rng.choice(alphabet)
        cases.append(("r%d" % n, [mk_line("".join(s), FUT, someq[:40])]))
        n += 1
    return cases


def parse(lines):
    t = lines[0]
    now, exp = t[0], t[1]
    n = t[2]
    scope = bytes(t[3:3 + n]).decode("utf-8", "replace")
    i = 3 + n
    qs = []
    while i < len(t):
        a = t[i]
        m = t[i + 1]
        qs.append((a, bytes(t[i + 2:i + 2 + m]).decode("utf-8", "replace")))
        i += 2 + m
    return now, exp, scope, qs


CHUNK = re.compile(r"^(read|actuate|provide|create)(?::((?:[A-Z][A-Za-z0-9]*|\*)(?:\.(?:[A-Z][A-Za-z0-9]*|\*))*))?$")


def oracle_parse(scope):
    """-> list of (action, pattern or None) or None when the claim is invalid"""
    out = []
    for ch in scope.split():
        m = CHUNK.match(ch)
        if not m:
            return None
        out.append((m.group(1), m.group(2)))
    return out


def oracle_covers(pat, path):
    if pat is None:
        return True
    if pat == "*":
        return None          # excluded
    if "*" not in pat:
        return path == pat or path.startswith(pat + ".")
    ps, xs = pat.split("."), path.split(".")
    return len(ps) == len(xs) and all(p == "*" or p == x for p, x in zip(ps, xs))


def oracle(scope, exp, now, qs):
    sc = oracle_parse(scope)
    if sc is None:
        return None
    res = []
    for a, path in qs:
        if exp < now:
            res.append(2)
            continue
        def has(act):
            vals = [oracle_covers(p, path) for (x, p) in sc if x == act]
            if any(v is True for v in vals):
                return True
            if any(v is None for v in vals):
                return None
            return False
        if a == 0:
            vs = [has(x) for x in ACTIONS]
            g = True if any(v is True for v in vs) else None if any(v is None for v in vs) else False
        else:
            g = has(ACTIONS[a])
        res.append(None if g is None else 0 if g else 1)
    return res


def monitor(lines, out):
    if not out:
        return ["no-output: implementation produced no line"]
    r = out[0]
    if r == [-77]:
        return ["panic: scope handling panicked"]
    now, exp, scope, qs = parse(lines)
    exp_res = oracle(scope, exp, now, qs)
    if exp_res is None:
        return [] if r == [0] else ["malformed-accepted: claim %r has an invalid chunk but was accepted" % scope]
    if r == [0]:
        return ["valid-rejected: well-formed claim %r was rejected" % scope]
    fails = []
    for (a, path), e, got in zip(qs, exp_res, r[1:]):
        if e is None or e == got:
            continue
        kind = "over-grant" if got == 0 else "under-grant" if e == 0 else "expiry"
        fails.append("%s: scope %r, right %s on %s: expected %s got %s"
                     % (kind, scope, ["read", "actuate(target)", "provide(datapoint)", "create"][a], path, e, got))
        if len(fails) > 3:
            break
    return fails


def nontrivial(lines, out):
    if not out:
        return None
    r = out[0]
    now, exp, scope, qs = parse(lines)
    if r == [0] or (0 in r[1:] and 1 in r[1:]):
        return (scope, hash(tuple(r)))
    return None


def histogram(lines, out):
    now, exp, scope, qs = parse(lines)
    r = out[0] if out else []
    h = ["claim:" + ("rejected" if r == [0] else "accepted"), "scopes:%d" % len(scope.split()),
         "expired:%s" % (exp < now)]
    if "*" in scope:
        h.append("has-star")
    return h


def pretty(lines):
    now, exp, scope, qs = parse(lines)
    return "scope=%r exp=%s queries=%d (first: %s)" % (scope, "past" if exp < now else "future", len(qs), qs[:3])


def neighbours(lines, rng):
    now, exp, scope, qs = parse(lines)
    ps = paths(4)
    allq = [(a, p) for p in ps for a in range(4)]
    return [[mk_line(scope, exp, allq)], [mk_line(scope, FUT, allq)]]

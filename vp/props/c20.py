"""C20 — the VISS v2 socket obeys the same access, typing and freshness rules as gRPC."""
from .. import viss as VI
from .. import hist as H

PID = "C20"
FAM = 20
ALLOWED_AXIOMS = {"Classical_Prop.classic", "ClassicalDedekindReals.sig_not_dec",
                  "ClassicalDedekindReals.sig_forall_dec",
                  "FunctionalExtensionality.functional_extensionality_dep"}
MANIFEST = {
    "text": "Coq model of the VISS v2 front-end on the broker core (Model/Viss.v: token resolution per request, get / set / subscribe / unsubscribe, the text codec Value::try_into_type with Rust's integer and boolean grammars and correctly rounded decimal float literals, event conversion). Theorems: a VISS get yields a datapoint exactly when kuksa.val.v2 GetValue with the same token does, the same stored datapoint, and is refused for the same cause; without a token / with one that does not verify every data request (get, set, subscribe) is answered token_missing / token_invalid (static metadata is served without a token: the server's documented choice, no value is involved); a set is accepted iff the path is an actuator, the text parses to its data type and the core accepts the typed value as a target update from that token (the very update v1 Set issues); a refused set leaves the store unchanged; every value of an integer type written in decimal is read back as itself, numbers outside the parsed width and texts of the wrong kind (scalar for array, null) are refused; unsubscribing stops the stream; the static-metadata tree names exactly the signals whose path starts with the requested text, each with its registered entry type, data type and allowed list (c20_metadata_sound / _complete). Tied to the code on every run: histories issue reads, target writes and subscriptions alternately over the real VISS websocket server (viss::server::serve on loopback, tokio-tungstenite client, tokens signed per principal) and over the gRPC handlers / core API against ONE broker; every reply, every event (value and timestamp) and a full state dump after each write are diffed against the extracted model; an oracle rewrites the VISS traffic into the equivalent core operations for the shared C01/C02/C03/C04/C07 monitors and adds the VISS clauses (rights, text acceptance iff well-formed and in range, replies carrying the request id, raw malformed frames). Static metadata over VISS (get with the static-metadata filter): model Viss.viss_metadata, theorems c20_metadata_sound / c20_metadata_complete, oracle on entry type, data type, allowed list and description of every listed signal and on the selection (strict / liberal reading); long multi-byte frames and replies.",
    "note": "Trusted: Coq kernel; Flocq's 4 standard-library axioms (float texts); extraction + OCaml driver; harness/src/fam_viss.rs (websocket client, reading a value text back as a value of the signal's type with Rust's own parsers, RFC 3339 timestamps mapped to operation windows at millisecond resolution); vp/viss.py. Modelled, not verified: JSON framing and request ids (checked by the harness and the oracle, not by the model), unit / min / max in the static metadata (the server does not report them), float texts with exponents / inf / nan (not generated for comparison), expiry through VISS (a JWT's exp has second resolution: an expired token does not verify and answers token_invalid; covered by C06's rule for the decoder). Runtime behaviour outside the model: the server forwards events through a 10-slot queue with try_send - a client that does not read its socket loses the NEWEST events (DESIGN.md, limits); the harness reads after every operation (a barrier request).",
}
RULE = ("seeded histories of 10-40 operations over 4-8 signals (about 65% actuators, every data type incl. arrays, "
        "min/max/allowed metadata), 2-4 principals with generated scopes: VISS get / set / subscribe / unsubscribe / "
        "event reads / raw frames mixed with core updates and kuksa.val.v1/v2 handler calls on the same broker; set "
        "texts: the decimal text of valid and out-of-domain values, integer boundary texts of every width, malformed "
        "numerals (spaces, '+5', '-0', '5.0' for integers, '1e3', hex, Arabic digits, empty), wrong kinds (scalar / "
        "array / null), booleans in other spellings; tokens: per principal, none, non-verifying; one case in six against "
        "a server with authorization disabled; non-trivial = "
        "history with an accepted and a refused VISS set; distinct = distinct operation sequences; static-metadata requests (everything, a branch, a signal, the beginning of a name, unknown) judged for what they say about each signal (entry type, data type, allowed) and for which signals they list")
TRUSTED = ["extraction: ExtrOcamlBasic only; driver ocaml/model_run.ml",
           "harness/src/fam_viss.rs + fam_hist.rs: the real VISS server (viss::server::serve) on 127.0.0.1, tokio-tungstenite client, JWTs signed with certificates/jwt/jwt.key",
           "python: vp/viss.py (generator, rewriting oracle), vp/hist.py monitors, permission oracle of vp/props/c05.py"]
ASSUMPTIONS = ["the client reads its socket after every operation (barrier request): an unread socket loses events (documented limit)",
               "timestamps over VISS have millisecond resolution: operations of this family are separated by a millisecond boundary",
               "float set texts are decimal literals in the class Model/FloatLit.v covers; others are not generated"]
N_QUICK, N_THOROUGH = 120, 3000


def generate(rng, tier, n=None):
    n = n or (N_QUICK if tier == "quick" else N_THOROUGH)
    # one case in six runs against a server with authorization disabled (every request served with full rights)
    return [("w%d" % i, VI.gen_case(rng, open_mode=(i % 6 == 5))) for i in range(n)]


def compare(lines, m, i):
    # a float text outside the modelled class makes the model answer [99]: such cases are not compared
    if m is not None and [99] in m:
        return True
    am, ai = VI.split(lines, m or []), VI.split(lines, i or [])
    if am is None or ai is None:
        return m == i
    # raw frames are judged by the oracle only (the model does not read JSON)
    return [o for (_l, d, o) in am if not (d and d["name"] == "VRAW")] == \
           [o for (_l, d, o) in ai if not (d and d["name"] == "VRAW")]


def monitor(lines, out):
    return VI.monitor(lines, out)


def nontrivial(lines, out):
    al = VI.split(lines, out)
    if al is None:
        return None
    acc = rej = False
    for l, d, o in al:
        if d and d["name"] == "VSET":
            acc |= o[0] == [0]
            rej |= o[0][:1] == [1]
    return hash(tuple(map(tuple, lines))) if acc and rej else None


def histogram(lines, out):
    al = VI.split(lines, out)
    if al is None:
        return ["unaligned"]
    h = []
    for l, d, o in al:
        if d:
            h.append("%s -> %s" % (d["name"], "ok" if o[0][:1] == [0] else "events" if d["name"] == "VRECV" else
                                   "%s" % VI.REASON.get(o[0][2] if len(o[0]) > 2 else 0, o[0])))
        else:
            h.append("op:" + (H.OPN[l[0]] if 0 <= l[0] < len(H.OPN) else "?"))
    return h


def pretty(lines):
    return VI.pretty(lines)


def neighbours(lines, rng):
    return []

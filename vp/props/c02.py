"""C02 — type, range and allowed-value integrity: the validation grid (part Grid) and the write / actuation
paths that call the decision functions (part Paths, history family, clauses C02-stored / C02-forwarded)."""
from fractions import Fraction
from .. import enc as E

PID = "C02"
FAM = 2
ALLOWED_AXIOMS = {
    "Classical_Prop.classic",
    "ClassicalDedekindReals.sig_not_dec",
    "ClassicalDedekindReals.sig_forall_dec",
    "FunctionalExtensionality.functional_extensionality_dep",
}
MANIFEST = {
    "text": "Coq theorem: Entry::validate / validate_actuator_value (as modelled arm by arm) accept a value other than NotAvailable iff it lies in a declaratively defined domain (carrier kind of the data type, 8/16-bit range element-wise, min/max, allowed list), and that domain is given its meaning in the exact order of the numbers via the C13 theorems. Tied to the code by a complete grid (24 data types x 17 value kinds x boundary pool x min/max/allowed shapes) executed against the real Entry methods, with an independent exact-rational domain monitor on the implementation's verdicts. The write paths that call the validator are exercised by the history checks (C01, C09). History invariant (Proofs/Store.v, StoreDomain.v): in every state reachable by any finite history, the current value, the previous value (LAG) and the target of every signal are NotAvailable or lie in the declared domain (c02_store_inv), hence so is whatever a reader is handed (c02_read_in_domain) and whatever a provider receives has passed the actuator validation (c02_forwarded_validated). Third part: values written as text over the VISS websocket (the VISS family judged by the C02 clauses).",
    "note": "Trusted: Coq kernel, Flocq and the 4 standard-library axioms it brings; extraction + OCaml driver (cross-checked by vm_compute each run); harness/src/fam_validate.rs; the Python monitor. Modelled, not verified: the Rust match arms themselves (covered by the exhaustive-cell correspondence).",
    "technique": "machine-checked proof in Coq + exhaustive-grid differential correspondence",
}
EXHAUSTIVE = True
SHRINK = False
RULE = ("grid: 24 data types x 17 value kinds x boundary pool (narrow-type limits +-1, min/max +-1, "
        "NaN, +-inf, +-0, empty arrays, arrays with one offending element) x {no,min,max,both} x "
        "{no allowed, allowed, allowed of a foreign kind}; validate() and validate_actuator_value() "
        "are both called on the real Entry; non-trivial = value of the type's own kind (so that range "
        "and allowed checks decide), distinct = (type, min/max/allowed shape, verdict, value); second part: seeded "
        "store and actuation histories plus routing scenarios through the real update_entries / actuate / "
        "batch_actuate, every stored and every forwarded value re-judged against the declarative domain")
TRUSTED = [
    "Flocq 4 IEEE-754 formalisation",
    "extraction: ExtrOcamlBasic only; driver ocaml/model_run.ml",
    "correspondence harness: harness/src/fam_validate.rs calling Entry::validate, "
    "Entry::validate_actuator_value, Entry::validate_allowed_type on a synthetic Entry",
    "python declarative domain monitor vp/props/c02.py",
]
ASSUMPTIONS = ["metadata min/max are of the data type's own value kind or a kind comparable with it",
               "the grid covers the decision functions; the write paths that call them are covered by the second "
               "part (history family) whose monitor re-uses in_domain"]

F, D = E.f32_bits, E.f64_bits
# data type -> (natural scalar kind, array?, narrow range or None)
NAT = {0: (E.STR, False, None), 1: (E.BOOL, False, None), 2: (E.I32, False, (-128, 127)),
       3: (E.I32, False, (-32768, 32767)), 4: (E.I32, False, None), 5: (E.I64, False, None),
       6: (E.U32, False, (0, 255)), 7: (E.U32, False, (0, 65535)), 8: (E.U32, False, None),
       9: (E.U64, False, None), 10: (E.F32, False, None), 11: (E.F64, False, None),
       12: (E.STR, True, None), 13: (E.BOOL, True, None), 14: (E.I32, True, (-128, 127)),
       15: (E.I32, True, (-32768, 32767)), 16: (E.I32, True, None), 17: (E.I64, True, None),
       18: (E.U32, True, (0, 255)), 19: (E.U32, True, (0, 65535)), 20: (E.U32, True, None),
       21: (E.U64, True, None), 22: (E.F32, True, None), 23: (E.F64, True, None)}
ARR = {E.BOOL: E.BOOLA, E.STR: E.STRA, E.I32: E.I32A, E.I64: E.I64A, E.U32: E.U32A, E.U64: E.U64A,
       E.F32: E.F32A, E.F64: E.F64A}
SCALAR_OF = {v: k for k, v in ARR.items()}

POOL = {
    E.BOOL: [True, False],
    E.STR: ["", "a", "b", "abc", "ABC"],
    E.I32: [0, 1, -1, 5, 9, 10, 11, -9, -10, -11, 127, 128, -128, -129, 32767, 32768, -32768, -32769,
            2**24 + 1, 2**31 - 1, -2**31],
    E.I64: [0, 1, -1, 9, 10, 11, -10, -11, 2**31, -2**31 - 1, 2**53 + 1, 2**63 - 1, -2**63],
    E.U32: [0, 1, 5, 9, 10, 11, 255, 256, 65535, 65536, 2**24, 2**24 + 1, 2**32 - 1],
    E.U64: [0, 1, 9, 10, 11, 2**32, 2**53 + 1, 2**64 - 1],
    E.F32: [F(x) for x in (0.0, -0.0, 1.0, 9.5, 10.0, -10.0, 3.4028234663852886e38, float("inf"),
                           float("-inf"))] + [0x7FC00000, F(10.0) + 1, F(10.0) - 1, F(-10.0) + 1,
                                              F(-10.0) - 1, 1],
    E.F64: [D(x) for x in (0.0, -0.0, 1.0, 9.5, 10.0, -10.0, 1.7976931348623157e308, float("inf"),
                           float("-inf"))] + [0x7FF8000000000000, D(10.0) + 1, D(10.0) - 1,
                                              D(-10.0) + 1, D(-10.0) - 1, 1],
}
MINMAX = {E.I32: (-10, 10), E.I64: (-10, 10), E.U32: (1, 10), E.U64: (1, 10),
          E.F32: (F(-10.0), F(10.0)), E.F64: (D(-10.0), D(10.0))}
ALLOWED = {E.BOOL: [True], E.STR: ["a", "abc"], E.I32: [1, 10, 127, -129, 32768],
           E.I64: [1, 10, 2**53 + 1], E.U32: [1, 10, 255, 256], E.U64: [1, 10, 2**64 - 1],
           E.F32: [F(0.0), F(10.0), 0x7FC00000, F(9.5)], E.F64: [D(0.0), D(10.0), 0x7FF8000000000000, D(9.5)]}
REPR = {E.NA: None, E.BOOL: True, E.STR: "abc", E.BOOLA: [True], E.STRA: ["a"], E.I32A: [1],
        E.I64A: [1], E.U32A: [1], E.U64A: [1], E.F32A: [F(1.0)], E.F64A: [D(1.0)],
        E.I32: 1, E.I64: 1, E.U32: 1, E.U64: 1, E.F32: F(1.0), E.F64: D(1.0)}


def opt(v):
    return [0] if v is None else [1] + v


def line(fn, t, mn, mx, al, v=None):
    return [fn, t] + opt(mn) + opt(mx) + opt(al) + (v if v is not None else [])


def values_for(t, rng=None):
    k, arr, _ = NAT[t]
    vs = []
    if not arr:
        vs += [E.val(k, p) for p in POOL[k]]
    else:
        ak = ARR[k]
        pool = POOL[k]
        vs.append(E.val(ak, []))
        vs += [E.val(ak, [p]) for p in pool]
        good = pool[1]
        vs += [E.val(ak, [good, p]) for p in pool[2:]]
        vs += [E.val(ak, [good, good, pool[-1], good])]
    # every foreign kind, one representative
    for kk in range(17):
        vs.append(E.val(kk, REPR[kk]))
    return vs


def metas_for(t):
    k, arr, _ = NAT[t]
    res = []
    mm = MINMAX.get(k)
    shapes = [(None, None)]
    if mm:
        mn, mx = E.val(k, mm[0]), E.val(k, mm[1])
        shapes += [(mn, None), (None, mx), (mn, mx)]
        # cross-kind bounds (comparable kinds)
        other = {E.I32: E.I64, E.I64: E.I32, E.U32: E.U64, E.U64: E.U32, E.F32: E.F64, E.F64: E.F32}[k]
        om = MINMAX[other]
        shapes += [(E.val(other, om[0]), E.val(other, om[1]))]
        if k in (E.I32, E.U32):
            shapes += [(E.val(E.F64, D(1.0)), E.val(E.F64, D(10.0)))]
            # a float bound at 2^24: integers above it are not representable in f32
            shapes += [(None, E.val(E.F32, F(16777216.0)))]
        if k in (E.I64, E.U64):
            shapes += [(E.val(E.F64, D(1.0)), None)]
            # bounds that no double represents: every API has to report exactly these numbers
            shapes += [(E.val(k, -(2**53 + 1) if k == E.I64 else 2**53 + 1), E.val(k, 2**63 - 2 if k == E.I64 else 2**64 - 2))]
    als = [None, E.val(ARR[k], ALLOWED[k])]
    foreign = E.I64A if k != E.I64 else E.I32A
    als.append(E.val(foreign, [1, 10]))
    for mn, mx in shapes:
        for al in als:
            res.append((mn, mx, al))
    return res


def generate(rng, tier):
    cases = []
    n = 0
    for t in range(24):
        for (mn, mx, al) in metas_for(t):
            for v in values_for(t):
                cases.append(("v%d" % n, [line(0, t, mn, mx, al, v)]))
                n += 1
        # validate_allowed_type: every allowed array kind against this type
        for ak in range(17):
            cases.append(("a%d" % n, [line(1, t, None, None, E.val(ak, REPR[ak]))]))
            n += 1
        cases.append(("a%d" % n, [line(1, t, None, None, None)]))
        n += 1
    # random values of the natural kind against random bounds
    nr = 3000 if tier == "quick" else 100000
    from .c13 import rand_val
    for _ in range(nr):
        t = rng.randrange(24)
        k, arr, nr_ = NAT[t]
        if k in (E.BOOL, E.STR):
            continue
        def rv():
            return rng.choice(POOL[k]) if rng.random() < 0.5 else rand_val(rng, k)
        mn = E.val(k, rv()) if rng.random() < 0.6 else None
        mx = E.val(k, rv()) if rng.random() < 0.6 else None
        al = E.val(ARR[k], [rv() for _ in range(rng.randrange(1, 4))]) if rng.random() < 0.3 else None
        v = E.val(ARR[k], [rv() for _ in range(rng.randrange(0, 4))]) if arr else E.val(k, rv())
        cases.append(("r%d" % n, [line(0, t, mn, mx, al, v)]))
        n += 1
    return cases


def parse(lines):
    t = lines[0]
    fn, ty = t[0], t[1]
    i = 2
    ms = []
    for _ in range(3):
        if t[i] == 0:
            ms.append(None)
            i += 1
        else:
            v, i = E.dec_val(t, i + 1)
            ms.append(v)
    v = None
    if fn == 0:
        v, i = E.dec_val(t, i)
    return fn, ty, ms[0], ms[1], ms[2], v


EPS64 = Fraction(1, 2**52)
EPS32 = Fraction(1, 2**23)


def _cmp_ok(x, kx, b, kb, ge, strict):
    """is x >= b (ge) / x <= b in the exact order; `strict`: without tolerance.
    returns True/False/None(undecidable by the broker: declines)"""
    from .c13 import may_decline
    ex, eb = E.exact(kx, x), E.exact(kb, b)
    if ex is None or eb is None:
        return False
    if may_decline((kx, x), (kb, b)):
        return None
    if ex == "nan" or eb == "nan":
        return False
    rank = lambda v: (-1, 0) if v == "-inf" else (1, 0) if v == "+inf" else (0, v)
    a, c = rank(ex), rank(eb)
    if (a > c) if ge else (a < c):
        return True
    if isinstance(ex, Fraction) and isinstance(eb, Fraction):
        if ex == eb:
            return True
        if not strict:
            eps = EPS32 if (kx == E.F32 and kb == E.F32) else EPS64
            return abs(ex - eb) < eps
    return False


def ieee_eq(k, a, b):
    if k in (E.F32, E.F64):
        ea, eb = E.exact(k, a), E.exact(k, b)
        return ea != "nan" and eb != "nan" and ea == eb
    return a == b


def in_domain(ty, mn, mx, al, v, strict):
    """declarative domain of a signal: True / False / None (broker may decline a comparison)"""
    k, arr, narrow = NAT[ty]
    vk, vp = v
    if arr:
        if vk != ARR[k]:
            return False
        elems = vp
    else:
        if vk != k:
            return False
        elems = [vp]
    unknown = False
    for x in elems:
        if narrow and not (narrow[0] <= x <= narrow[1]):
            return False
        if k not in (E.BOOL, E.STR):
            for b, ge in ((mn, True), (mx, False)):
                if b is not None:
                    r = _cmp_ok(x, k, b[1], b[0], ge, strict)
                    if r is None:
                        unknown = True
                    elif not r:
                        return False
    if al is not None:
        if al[0] != ARR[k]:
            return False
        for x in elems:
            if not any(ieee_eq(k, x, y) for y in al[1]):
                return False
    return None if unknown else True


def monitor(lines, out):
    if not out:
        return ["no-output: implementation produced no line"]
    r = out[0]
    if r == [-77]:
        return ["panic: validation panicked"]
    if r == [-2]:
        return ["paths-differ: validate() and validate_actuator_value() disagree on the same value"]
    fn, ty, mn, mx, al, v = parse(lines)
    fails = []
    if fn == 1:
        k, arr, _ = NAT[ty]
        ok = al is None or al[0] == ARR[k]
        if (r == [0]) != ok:
            fails.append("allowed-type: allowed list of kind %s %s for data type %s"
                         % (E.KIND_NAMES[al[0]] if al else None, "accepted" if r == [0] else "refused",
                            E.DATA_TYPES[ty]))
        return fails
    if r == [0]:
        if v[0] == E.NA:
            return fails
        if in_domain(ty, mn, mx, al, v, strict=False) is False:
            fails.append("accepted-outside-domain: %s accepted %s" % (E.DATA_TYPES[ty], E.show_val(v)))
    else:
        if v[0] != E.NA and in_domain(ty, mn, mx, al, v, strict=True) is True:
            fails.append("rejected-inside-domain: %s rejected %s" % (E.DATA_TYPES[ty], E.show_val(v)))
    return fails


def nontrivial(lines, out):
    fn, ty, mn, mx, al, v = parse(lines)
    if fn == 1 or not out:
        return None
    k, arr, _ = NAT[ty]
    if v[0] != (ARR[k] if arr else k):
        return None
    return (ty, mn is not None, mx is not None, None if al is None else al[0], tuple(out[0]), repr(v[1]))


def histogram(lines, out):
    fn, ty, mn, mx, al, v = parse(lines)
    res = "Ok" if out and out[0] == [0] else ("Err%d" % out[0][1] if out and out[0][0] == 1 else "bad")
    h = ["type:" + E.DATA_TYPES[ty], "verdict:" + res, "fn:%d" % fn]
    if v is not None:
        h.append("kind:" + E.KIND_NAMES[v[0]])
    return h


def pretty(lines):
    fn, ty, mn, mx, al, v = parse(lines)
    sv = lambda x: None if x is None else E.show_val(x)
    if fn == 1:
        return "validate_allowed_type(type=%s, allowed=%s)" % (E.DATA_TYPES[ty], sv(al))
    return "validate(type=%s, min=%s, max=%s, allowed=%s, value=%s)" % (
        E.DATA_TYPES[ty], sv(mn), sv(mx), sv(al), sv(v))


def neighbours(lines, rng):
    fn, ty, mn, mx, al, v = parse(lines)
    out = []
    for (a, b, c) in metas_for(ty):
        for vv in values_for(ty):
            out.append([line(0, ty, a, b, c, vv)])
    return out[:3000]


class Grid:
    """the decision functions on a synthetic Entry (family 2)"""
    FAM = 2
    SHRINK = False
    generate = staticmethod(generate)
    monitor = staticmethod(monitor)
    nontrivial = staticmethod(nontrivial)
    histogram = staticmethod(histogram)
    pretty = staticmethod(pretty)
    neighbours = staticmethod(neighbours)


class Paths:
    """the write and actuation paths that call them (history family): every value stored by an accepted write and
    every value forwarded to a provider is re-judged against the declarative domain (clauses C02-stored,
    C02-forwarded); store-centred histories, actuation histories and the routing scenarios of vp/props/c09.py
    (batches with duplicates and ill-typed values in every position)"""
    FAM = 1

    @staticmethod
    def generate(rng, tier):
        from .. import hist as H
        from . import c09
        n = 80 if tier == "quick" else 2000
        cases = [("s%d" % i, H.gen_history(rng, H.W_STORE)) for i in range(n)]
        cases += [("t%d" % i, H.gen_history(rng, H.W_ACT)) for i in range(n)]
        cases += [("route%d" % i, c09.routing_scenario(rng)) for i in range(n // 2)]
        return cases

    @staticmethod
    def monitor(lines, out):
        from .. import hist as H
        return H.monitor(lines, out, {"C02"})

    @staticmethod
    def nontrivial(lines, out):
        from . import c01
        return c01.nontrivial(lines, out)

    @staticmethod
    def histogram(lines, out):
        from .. import hist as H
        return ["op:" + (H.OPN[l[0]] if 0 <= l[0] < len(H.OPN) else "?") for l in lines]

    @staticmethod
    def pretty(lines):
        from .. import hist as H
        return H.pretty(lines)

    @staticmethod
    def neighbours(lines, rng):
        return []


class VissSet:
    """values written as text over the VISS websocket (set) on actuators of every data type: what gets stored must lie
    in the declared domain (the narrow integer types travel as text and are parsed by the server); the VISS family
    judged by the C02 clauses and the text-acceptance clause of C20"""
    FAM = 20
    CROSS_MAX = 0

    @staticmethod
    def generate(rng, tier):
        from .. import viss as VI
        n = 150 if tier == "quick" else 2000
        return [("vs%d" % i, VI.gen_case(rng, open_mode=(i % 6 == 5))) for i in range(n)]

    @staticmethod
    def compare(lines, m, i):
        from . import c20
        return c20.compare(lines, m, i)

    @staticmethod
    def monitor(lines, out):
        from .. import viss as VI
        return [f for f in VI.monitor(lines, out) if f.startswith(("C02-", "C20-set", "C20-shared(C02"))]

    @staticmethod
    def nontrivial(lines, out):
        return hash(tuple(map(tuple, lines)))

    @staticmethod
    def histogram(lines, out):
        from . import c20
        return ["viss:" + h for h in c20.histogram(lines, out) if h.startswith("VSET")]

    @staticmethod
    def pretty(lines):
        from .. import viss as VI
        return VI.pretty(lines)

    @staticmethod
    def neighbours(lines, rng):
        return []


PARTS = [Grid, Paths, VissSet]

"""C04 — history family, profile W_MIX (see vp/hist.py and vp/props/c01.py)."""
from .. import hist as H
from . import c01 as B

PID = "C04"
FAM = 1
ALLOWED_AXIOMS = {"Classical_Prop.classic", "ClassicalDedekindReals.sig_not_dec",
                  "ClassicalDedekindReals.sig_forall_dec",
                  "FunctionalExtensionality.functional_extensionality_dep"}
MANIFEST = {
    "text": "Coq theorems over the broker model: across any update batch a signal's value changes only if can_write_datapoint holds for the caller and its target only if can_write_actuator_target holds; a new entry needs can_create; metadata (id, path, data type, entry type, ...) of a registered signal is immutable over every history; fully refused batches, refused claims and failed actuations change nothing. Tied to the code by the history correspondence with generated permission sets, a state dump after every mutating operation and a permission oracle on the implementation's own state changes. Also: c04_expired_token_changes_nothing / c04_expired_token_registers_nothing (whatever its scopes, an expired token changes no value, target or registration); provider-stream scenarios with claims by a token that covers only part of what it names (refused as a whole, nothing registered).",
    "note": "Trusted: Coq kernel; the 4 standard-library axioms that enter through Flocq (used by validate's float comparisons) as printed by Print Assumptions; extraction + OCaml driver (vm_compute cross-check each run); harness/src/fam_hist.rs and hook H3 (verif_housekeeping_step); the Python monitors. Modelled, not verified: tokio broadcast (ring with capacity rounded up to a power of two, Lagged skipping) and RwLock, HashMap iteration order (outputs are sorted), the gRPC handlers on top of AuthorizedAccess (exercised by the handler-level checks), SystemTime (a timestamp is canonicalised to the operation during which it was taken; expiry is crossed in real time at a TICK).",
}
PROPS = set("C04".split(","))
WEIGHTS = H.W_MIX
RULE = B.RULE
TRUSTED = B.TRUSTED
ASSUMPTIONS = B.ASSUMPTIONS


GRID_SCOPES = ["read", "provide", "actuate", "create", "read provide", "read create", "read actuate",
               "actuate:Vehicle.Other read", "provide:Vehicle.Other read", "create:Vehicle.Other read",
               "read:Vehicle.Grid.Act0 provide:Vehicle.Grid.Act0", "actuate:Vehicle.Grid.Act1 read",
               "read:Vehicle.Grid", "provide:Vehicle.Grid.*", "actuate:Vehicle.*.Act0 read:Vehicle"]


def grid_scenario(rng):
    """small-scope grid: principals holding one action, pairs of actions, or an action on another branch (and one
    token that expires) x every mutating operation of the core API (value, target, clearing a target, description,
    actuate, batch actuate through a live provider, provide, register), with the whole state dumped after each"""
    from .. import enc as E
    L = [[H.PERM, 0] + E.s(H.ALL_SCOPE)]
    scopes = rng.sample(GRID_SCOPES, 6)
    for sc in scopes:
        L.append([H.PERM, 0] + E.s(sc))
    L.append([H.PERM, 1] + E.s(H.ALL_SCOPE))           # expires at TICK
    nprin = len(scopes) + 2
    for i in range(3):
        L.append([H.ADD, 0] + E.s("Vehicle.Grid.Act%d" % i) + [4, rng.randrange(3), 2, 0, 0, 0])
    L.append([H.ADD, 0] + E.s("Vehicle.Grid.Sen") + [4, rng.randrange(3), 0, 0, 0, 0])
    L.append([H.PROVIDE, 0, 2, 0, 1])                  # live provider for Act0, Act1 (Act2 stays unowned)
    i32 = lambda: [E.I32, rng.randrange(1000)]
    L += [[H.UPDATE, 0, 1, 0, 3] + i32() + i32(), [H.UPDATE, 0, 1, 1, 2] + i32(), [H.DUMP]]
    if rng.random() < 0.5:
        L.append([H.SUB, 0, 0, 0, 4, 0, 3, 1, 3, 2, 3, 3, 1])
    ticked = False
    for _ in range(rng.randrange(18, 30)):
        p = rng.randrange(1, nprin)
        if not ticked and rng.random() < 0.06:
            L.append([H.TICK])
            ticked = True
            continue
        a = rng.choice([0, 0, 1, 2])
        k = rng.randrange(9)
        if k == 0:
            op = [H.UPDATE, p, 1, rng.choice([a, 3]), 1] + i32()
        elif k == 1:
            op = [H.UPDATE, p, 1, a, 2] + i32()
        elif k == 2:
            op = [H.UPDATE, p, 1, a, 4]
        elif k == 3:
            op = [H.UPDATE, p, 2, a, 3] + i32() + i32() + [3, 1] + i32()
        elif k == 4:
            op = [H.UPDATE, p, 1, a, 8]
        elif k == 5:
            op = [H.ACTUATE, p, a] + i32()
        elif k == 6:
            ids = rng.sample([0, 1, 2], rng.randrange(1, 3)) if rng.random() < 0.5 else rng.sample([0, 1], rng.randrange(1, 3))
            op = [H.BATCH, p, len(ids)] + sum(([i] + i32() for i in ids), [])
        elif k == 7:
            op = [H.PROVIDE, p, 1, 2]
        else:
            op = [H.ADD, p] + E.s("Vehicle.Grid.New%d" % rng.randrange(3)) + [4, 1, 0, 0, 0, 0]
        L += [op, [H.DUMP]]
    return L


def generate(rng, tier, n=None, **kw):
    cases = B.generate(rng, tier, weights=WEIGHTS, n=n, **GEN_KW)
    # the provider-stream scenarios: claims through kuksa.val.v2 OpenProviderStream, among them claims by a token that
    # covers only part of what it names - refused as a whole, with no effect on the provider registry
    return cases + [("grid%d" % i, grid_scenario(rng)) for i in range(60 if tier == "quick" else 1200)] + \
        [("st%d" % i, H.stream_scenario(rng)) for i in range(30 if tier == "quick" else 400)]


GEN_KW = {}


def monitor(lines, out):
    return H.monitor(lines, out, PROPS)


nontrivial = B.nontrivial
histogram = B.histogram
pretty = B.pretty
neighbours = B.neighbours

"""C04 — history family, profile W_MIX (see vp/hist.py and vp/props/c01.py)."""
from .. import hist as H
from . import c01 as B

PID = "C04"
FAM = 1
ALLOWED_AXIOMS = {"Classical_Prop.classic", "ClassicalDedekindReals.sig_not_dec",
                  "ClassicalDedekindReals.sig_forall_dec",
                  "FunctionalExtensionality.functional_extensionality_dep"}
MANIFEST = {
    "text": "Coq theorems over the broker model: across any update batch a signal's value changes only if can_write_datapoint holds for the caller and its target only if can_write_actuator_target holds; a new entry needs can_create; metadata (id, path, data type, entry type, ...) of a registered signal is immutable over every history; fully refused batches, refused claims and failed actuations change nothing. Tied to the code by the history correspondence with generated permission sets, a state dump after every mutating operation and a permission oracle on the implementation's own state changes.",
    "note": "Trusted: Coq kernel; the 4 standard-library axioms that enter through Flocq (used by validate's float comparisons) as printed by Print Assumptions; extraction + OCaml driver (vm_compute cross-check each run); harness/src/fam_hist.rs and hook H3 (verif_housekeeping_step); the Python monitors. Modelled, not verified: tokio broadcast (ring with capacity rounded up to a power of two, Lagged skipping) and RwLock, HashMap iteration order (outputs are sorted), the gRPC handlers on top of AuthorizedAccess (exercised by the handler-level checks), SystemTime (a timestamp is canonicalised to the operation during which it was taken; expiry is crossed in real time at a TICK).",
}
PROPS = set("C04".split(","))
WEIGHTS = H.W_MIX
RULE = B.RULE
TRUSTED = B.TRUSTED
ASSUMPTIONS = B.ASSUMPTIONS


def generate(rng, tier, n=None, **kw):
    return B.generate(rng, tier, weights=WEIGHTS, n=n, **GEN_KW)


GEN_KW = {}


def monitor(lines, out):
    return H.monitor(lines, out, PROPS)


nontrivial = B.nontrivial
histogram = B.histogram
pretty = B.pretty
neighbours = B.neighbours

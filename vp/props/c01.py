"""C01 — latest-value store (history family, store-centred profile)."""
from .. import hist as H

PID = "C01"
FAM = 1
ALLOWED_AXIOMS = {"Classical_Prop.classic", "ClassicalDedekindReals.sig_not_dec",
                  "ClassicalDedekindReals.sig_forall_dec",
                  "FunctionalExtensionality.functional_extensionality_dep"}
PROPS = {"C01", "C02"}
WEIGHTS = H.W_STORE
MANIFEST = {
    "text": "Coq theorems over the sequential broker model (Model/Broker.v: Database::add/update, Entry::diff/validate/apply, update_entries): for every finite history, what a reader sees for a signal is exactly the fold of the acknowledgements writers received (value and broker-assigned timestamp; NotAvailable when never written), a rejected batch element leaves value, timestamp and target untouched and the accepted elements of the same batch all take effect. The model is tied to the code on every run by executing generated histories (register / update batches with valid and invalid values, duplicates, target writes, reads, by several principals) against the real AuthorizedAccess API and diffing every result and a full state dump after each mutating operation; an acknowledgement-fold monitor written independently in Python judges the implementation's own trace. Also: the client streams (kuksa.val.v1 StreamedUpdate, sdv StreamDatapoints) on the databroker's own tonic server, one long-lived stream per principal, incl. a signal registered while the streams are open; theorems c01_v1_stream_is_core, c01_v1_stream_every_element, c01_v1_set_stream_same_core, c01_sdv_stream_is_update.",
    "note": "Trusted: Coq kernel (axiom-free for the history theorems; Flocq's stdlib axioms enter only through validate's float comparisons); extraction + OCaml driver (vm_compute cross-check); harness/src/fam_hist.rs; timestamp canonicalisation (a SystemTime is mapped to the operation during which it was taken). Modelled, not verified: HashMap iteration order (abstracted: outputs are sorted), the tonic handlers of the three gRPC services (thin translators onto update_entries; exercised by C15/C19's handler-level runs), query subscriptions.",
}
RULE = ("seeded histories of 8-40 operations (plus setup) over 3-6 registered signals of random data/change/entry "
        "types and metadata, 2-4 principals with generated scopes (some expiring mid-history); operations "
        "weighted towards update batches (1-4 elements, 75% valid values, duplicates, unknown ids, metadata "
        "fields) and reads, a DUMP of the whole state after every mutating operation; non-trivial = history "
        "with at least one accepted and one rejected update element; distinct = distinct operation sequences; plus "
        "scripted near-duplicate writes (a stored float followed by its neighbours 1-3 ulps away, a sub-epsilon step, "
        "its negation, the same number in another numeric kind; integers likewise) with a read after each")
TRUSTED = ["extraction: ExtrOcamlBasic only; driver ocaml/model_run.ml",
           "correspondence harness: harness/src/fam_hist.rs (real DataBroker/AuthorizedAccess, hook H3 for housekeeping)",
           "python monitors vp/hist.py (acknowledgement fold, permission oracle of vp/props/c05.py)"]
ASSUMPTIONS = ["timestamps are compared as the index of the operation that assigned them",
               "one batch that contains both accepted and rejected elements for the SAME id is not judged by the "
               "monitor (the response does not say which element failed); the model/implementation diff still is"]
N_QUICK, N_THOROUGH = 250, 6000


def generate(rng, tier, weights=None, n=None, **kw):
    n = n or (N_QUICK if tier == "quick" else N_THOROUGH)
    return [("h%d" % i, H.gen_history(rng, weights or WEIGHTS, **kw)) for i in range(n)]


def monitor(lines, out):
    return H.monitor(lines, out, PROPS)


def nontrivial(lines, out):
    al = H.split_outputs(lines, out)
    if al is None:
        return None
    acc = rej = False
    for d, o in al:
        if d["name"] == "UPDATE" and o and o[0] and o[0][0] >= 0:
            if o[0][0] < len(d["ups"]):
                acc = True
            if o[0][0] > 0:
                rej = True
    return hash(tuple(map(tuple, lines))) if acc and rej else None


def histogram(lines, out):
    h = []
    for l in lines:
        h.append("op:" + (H.OPN[l[0]] if 0 <= l[0] < 15 else "?"))
    return h


def pretty(lines):
    return H.pretty(lines)


def neighbours(lines, rng):
    return []


def near_scenario(rng):
    """writes that are *almost* the stored value: one or a few ulps away, a sub-epsilon step, the same number in
    another numeric kind - each is a different value (or an ill-typed one) and must be stored (or refused) as such"""
    from .. import enc as E
    from . import c02 as V
    L = [[H.PERM, 0] + E.s(H.ALL_SCOPE)]
    types = [10, 11, 10, 11, rng.choice([4, 5]), rng.choice([8, 9]), rng.choice([2, 6])]
    ets = []
    for i, t in enumerate(types):
        et = rng.choice([0, 2, 2])
        ets.append(et)
        L.append([H.ADD, 0] + E.s("Vehicle.Near%d" % i) + [t, rng.randrange(3), et, 0, 0, 0])
    L.append([H.DUMP])
    kind = {10: E.F32, 11: E.F64, 4: E.I32, 5: E.I64, 8: E.U32, 9: E.U64, 2: E.I32, 6: E.U32}
    bits = {E.F32: V.F, E.F64: V.D}

    def same_number(x, k):
        """the number x (an int or a python float) as a value of kind k"""
        if k in bits:
            return E.val(k, bits[k](float(x)))
        return E.val(k, int(x))

    for _ in range(rng.randrange(6, 14)):
        i = rng.randrange(len(types))
        k = kind[types[i]]
        fl = rng.choice([1, 1, 1, 2, 3]) if ets[i] == 2 else 1
        if k in bits:
            x = rng.choice([0.0, 1.0, 0.5, 5.0, 9.5, 1e-8, -1.0, 1e-30, 100.0])
            b = bits[k](x)
            seq = [b, rng.choice([b + 1, max(b - 1, 0), b + 2, b + 3, b, bits[k](x + 1e-8), bits[k](x + 1e-17), bits[k](-x), 1, 0])]
            vals = [E.val(k, v) for v in seq]
            if x == int(x) and rng.random() < 0.5:
                vals.append(same_number(x, rng.choice([E.I32, E.I64, E.U32, E.U64, E.F64 if k == E.F32 else E.F32])))
        else:
            x = rng.choice([0, 1, 5, 10])
            vals = [E.val(k, x), same_number(x, rng.choice([kk for kk in (E.I32, E.I64, E.U32, E.U64, E.F32, E.F64) if kk != k])),
                    E.val(k, x + 1)]
        for v in vals:
            body = [i, fl] + (v if fl & 1 else []) + (v if fl & 2 else [])
            L += [[H.UPDATE, 0, 1] + body, [H.GET, 0, i], [H.DUMP]]
    return L


class StorePart:
    FAM = 1
    generate = staticmethod(lambda rng, tier: generate(rng, tier) + [
        ("near%d" % i, near_scenario(rng)) for i in range(40 if tier == "quick" else 800)])
    monitor = staticmethod(monitor)
    nontrivial = staticmethod(nontrivial)
    histogram = staticmethod(histogram)
    pretty = staticmethod(pretty)
    neighbours = staticmethod(neighbours)


class ApiPart(StorePart):
    """the same store seen through the gRPC handlers (v1 Set / v2 PublishValue / sdv Set, Update, with
    duplicates and mixed batches), read back through every API"""

    @staticmethod
    def generate(rng, tier):
        n = 150 if tier == "quick" else 4000
        # ... and values published by providers through kuksa.val.v2 OpenProviderStream on the real server
        return [("a%d" % i, H.gen_history(rng, H.W_API, plain_meta=0.6)) for i in range(n)] + \
               [("st%d" % i, H.stream_scenario(rng)) for i in range(n // 5)] + \
               [("cs%d" % i, H.client_stream_scenario(rng)) for i in range(n // 4)]

    @staticmethod
    def histogram(lines, out):
        return ["op:" + (H.OPN[l[0]] if 0 <= l[0] < len(H.OPN) else "?") for l in lines]


PARTS = [StorePart, ApiPart]

"""C01 — latest-value store (history family, store-centred profile)."""
from .. import hist as H

PID = "C01"
FAM = 1
ALLOWED_AXIOMS = {"Classical_Prop.classic", "ClassicalDedekindReals.sig_not_dec",
                  "ClassicalDedekindReals.sig_forall_dec",
                  "FunctionalExtensionality.functional_extensionality_dep"}
PROPS = {"C01", "C02"}
WEIGHTS = H.W_STORE
MANIFEST = {
    "text": "Coq theorems over the sequential broker model (Model/Broker.v: Database::add/update, Entry::diff/validate/apply, update_entries): for every finite history, what a reader sees for a signal is exactly the fold of the acknowledgements writers received (value and broker-assigned timestamp; NotAvailable when never written), a rejected batch element leaves value, timestamp and target untouched and the accepted elements of the same batch all take effect. The model is tied to the code on every run by executing generated histories (register / update batches with valid and invalid values, duplicates, target writes, reads, by several principals) against the real AuthorizedAccess API and diffing every result and a full state dump after each mutating operation; an acknowledgement-fold monitor written independently in Python judges the implementation's own trace.",
    "note": "Trusted: Coq kernel (axiom-free for the history theorems; Flocq's stdlib axioms enter only through validate's float comparisons); extraction + OCaml driver (vm_compute cross-check); harness/src/fam_hist.rs; timestamp canonicalisation (a SystemTime is mapped to the operation during which it was taken). Modelled, not verified: HashMap iteration order (abstracted: outputs are sorted), the tonic handlers of the three gRPC services (thin translators onto update_entries; exercised by C15/C19's handler-level runs), query subscriptions.",
}
RULE = ("seeded histories of 8-40 operations (plus setup) over 3-6 registered signals of random data/change/entry "
        "types and metadata, 2-4 principals with generated scopes (some expiring mid-history); operations "
        "weighted towards update batches (1-4 elements, 75% valid values, duplicates, unknown ids, metadata "
        "fields) and reads, a DUMP of the whole state after every mutating operation; non-trivial = history "
        "with at least one accepted and one rejected update element; distinct = distinct operation sequences")
TRUSTED = ["extraction: ExtrOcamlBasic only; driver ocaml/model_run.ml",
           "correspondence harness: harness/src/fam_hist.rs (real DataBroker/AuthorizedAccess, hook H3 for housekeeping)",
           "python monitors vp/hist.py (acknowledgement fold, permission oracle of vp/props/c05.py)"]
ASSUMPTIONS = ["timestamps are compared as the index of the operation that assigned them",
               "one batch that contains both accepted and rejected elements for the SAME id is not judged by the "
               "monitor (the response does not say which element failed); the model/implementation diff still is"]
N_QUICK, N_THOROUGH = 250, 6000


def generate(rng, tier, weights=None, n=None, **kw):
    n = n or (N_QUICK if tier == "quick" else N_THOROUGH)
    return [("h%d" % i, H.gen_history(rng, weights or WEIGHTS, **kw)) for i in range(n)]


def monitor(lines, out):
    return H.monitor(lines, out, PROPS)


def nontrivial(lines, out):
    al = H.split_outputs(lines, out)
    if al is None:
        return None
    acc = rej = False
    for d, o in al:
        if d["name"] == "UPDATE" and o and o[0] and o[0][0] >= 0:
            if o[0][0] < len(d["ups"]):
                acc = True
            if o[0][0] > 0:
                rej = True
    return hash(tuple(map(tuple, lines))) if acc and rej else None


def histogram(lines, out):
    h = []
    for l in lines:
        h.append("op:" + (H.OPN[l[0]] if 0 <= l[0] < 15 else "?"))
    return h


def pretty(lines):
    return H.pretty(lines)


def neighbours(lines, rng):
    return []


class StorePart:
    FAM = 1
    generate = staticmethod(lambda rng, tier: generate(rng, tier))
    monitor = staticmethod(monitor)
    nontrivial = staticmethod(nontrivial)
    histogram = staticmethod(histogram)
    pretty = staticmethod(pretty)
    neighbours = staticmethod(neighbours)


class ApiPart(StorePart):
    """the same store seen through the gRPC handlers (v1 Set / v2 PublishValue / sdv Set, Update, with
    duplicates and mixed batches), read back through every API"""

    @staticmethod
    def generate(rng, tier):
        n = 150 if tier == "quick" else 4000
        return [("a%d" % i, H.gen_history(rng, H.W_API, plain_meta=0.6)) for i in range(n)]

    @staticmethod
    def histogram(lines, out):
        return ["op:" + (H.OPN[l[0]] if 0 <= l[0] < len(H.OPN) else "?") for l in lines]


PARTS = [StorePart, ApiPart]

"""C15 — values and metadata cross every wire format without loss."""
import itertools
from .. import enc as E
from .. import hist as H
from . import c01 as B
from . import c02 as V

PID = "C15"
ALLOWED_AXIOMS = {"Classical_Prop.classic", "ClassicalDedekindReals.sig_not_dec",
                  "ClassicalDedekindReals.sig_forall_dec",
                  "FunctionalExtensionality.functional_extensionality_dep"}
MANIFEST = {
    "text": "Coq theorems over the handler model (Model/Api.v): conversions broker<->proto are the identity on kind and payload in both directions, NotAvailable is the one value reported as absent, a value accepted through any API is stored exactly as sent and every read path of every API hands out that one stored datapoint, the handlers change the state only through the core operations they issue (refinement), and data/entry types travel through injective tables carrying the .proto numbers. Tied to the code on every run by (a) a complete sweep of the real From/Into impls of all three conversions.rs files over every value kind x a payload pool (-0, NaN payload classes, subnormals, extremes, empty and long arrays, non-ASCII strings) and every data/entry type, compared as raw bits, and (b) handler-level histories in which values are written through one API (v1 Set, v2 PublishValue, sdv UpdateDatapoints/SetDatapoints, in-process) and read back through every other (v1 Get, v2 GetValue/GetValues, sdv GetDatapoints) and metadata is read through v1 Get(metadata), v2 ListMetadata and sdv GetMetadata, with an independent consistency monitor. Third part: the VISS family judged by the C15 clauses (values as texts, the static-metadata tree: data type names, entry types, allowed lists). Unit and description: every API reports them as registered (flags set by the harness, not modelled). Bounds of 64-bit types that no double represents are reported exactly by every API.",
    "note": "Trusted: Coq kernel; the 4 stdlib axioms entering through Flocq via validate; extraction + OCaml driver; harness/src/fam_wire.rs, fam_api.rs (real tonic handlers as trait methods, test-side proto<->value glue). Modelled, not verified: prost/tonic encoding on the wire (handlers are called in-process), VISS text conversion (C20). Documented protocol gaps are part of the statement: sdv reports no bool allowed list and always CONTINUOUS; v1 reports value restrictions only for string/integer/float families, widened to 64 bit.",
}
RULE = B.RULE
TRUSTED = B.TRUSTED
ASSUMPTIONS = ["floats are compared as bit patterns; NaN payloads are expected to survive unchanged",
               "v1 value restrictions widen f32 bounds to f64 (exact)"]


class WirePart:
    FAM = 15
    SHRINK = False
    CROSS_MAX = 40

    @staticmethod
    def generate(rng, tier):
        cases = []
        n = 0
        pool = {k: list(V.POOL[k]) + H.WIDE.get(k, []) for k in V.POOL}
        vals = [[0]]
        for k, ps in pool.items():
            for p in ps:
                vals.append(E.val(k, p))
            ak = V.ARR[k]
            vals.append(E.val(ak, []))
            vals.append(E.val(ak, ps[:5]))
            vals.append(E.val(ak, [ps[-1]] * 40))
            vals.append(E.val(ak, list(reversed(ps))[:7]))
        for api in (1, 2, 3):
            for v in vals:
                cases.append(("w%d" % n, [[api, 0] + v]))
                n += 1
                cases.append(("w%d" % n, [[api, 1] + ([0] if v == [0] else [1] + v)]))
                n += 1
            cases.append(("w%d" % n, [[api, 1, 0]]))
            n += 1
            for t in range(24):
                cases.append(("w%d" % n, [[api, 2, t]]))
                n += 1
            for t in range(3):
                cases.append(("w%d" % n, [[api, 3, t]]))
                n += 1
        for num in list(range(-1, 34)) + [99]:
            cases.append(("w%d" % n, [[3, 4, num]]))
            n += 1
        return cases

    @staticmethod
    def monitor(lines, out):
        l = lines[0]
        if not out:
            return ["no-output: conversion produced nothing"]
        o = out[0]
        if o == [-77]:
            return ["panic: conversion panicked"]
        if o == [-2]:
            return ["C15-paths: two conversion routes of the same API disagree"]
        api, fn = l[0], l[1]
        if fn == 0:
            v = l[2:]
            if v == [0]:
                ok = o == [0] or (api == 3 and o == [0, 1])
            else:
                ok = o == [1] + v
            return [] if ok else ["C15-roundtrip: api %d broker->proto changed %s into %s" % (api, v[:8], o[:9])]
        if fn == 1:
            w = l[2:]
            exp = [0] if w == [0] else w[1:]
            return [] if o == exp else ["C15-roundtrip: api %d proto->broker changed %s into %s" % (api, w[:8], o[:8])]
        if fn == 2:
            tbl = H.SDV_DT if api == 3 else H.KUKSA_DT
            return [] if o == [tbl[l[2]]] else ["C15-meta: api %d reports number %s for data type %s" % (api, o, E.DATA_TYPES[l[2]])]
        if fn == 3:
            tbl = H.SDV_ET if api == 3 else H.KUKSA_ET
            return [] if o == [tbl[l[2]]] else ["C15-meta: api %d reports number %s for entry type %d" % (api, o, l[2])]
        if fn == 4:
            exp = H.SDV_DT.index(l[2]) if l[2] in H.SDV_DT else -1
            return [] if o == [exp] else ["C15-meta: sdv data type number %d decoded as %s" % (l[2], o)]
        return []

    @staticmethod
    def nontrivial(lines, out):
        return tuple(lines[0][:12])

    @staticmethod
    def histogram(lines, out):
        l = lines[0]
        return ["wire api%d fn%d" % (l[0], l[1])]

    @staticmethod
    def pretty(lines):
        l = lines[0]
        return "api=%d fn=%d args=%s" % (l[0], l[1], l[2:14])

    @staticmethod
    def neighbours(lines, rng):
        return []


class ApiPart:
    FAM = 1
    PROPS = {"C15", "C01"}

    @staticmethod
    def generate(rng, tier):
        n = 150 if tier == "quick" else 4000
        # corpus first: the reproducer of known finding F14 (+0.0 then -0.0 on an on-change double)
        f14 = [[H.PERM, 0] + E.s(H.ALL_SCOPE),
               [H.ADD, 0] + E.s("Vehicle.Speed") + [11, 1, 0, 0, 0, 0],
               [H.V2PUB, 0, 3, 0, 1, 1, 8, 0], [H.DUMP],
               [H.V2PUB, 0, 3, 0, 1, 1, 8, 1 << 63], [H.DUMP],
               [H.V2GET, 0, 3, 0], [H.SDVGET, 0, 1] + E.s("Vehicle.Speed")]
        return [("corpus_f14", f14)] + \
               [("h%d" % i, H.gen_history(rng, H.W_API, wide_values=True, plain_meta=0.7, allow_expiry=False))
                for i in range(n)]

    @staticmethod
    def classify(lines, out, msg, known):
        for kf in known:
            if kf.get("match", {}).get("clause") and msg.startswith(kf["match"]["clause"]):
                return kf
        return None

    @staticmethod
    def monitor(lines, out):
        return H.monitor(lines, out, ApiPart.PROPS)

    nontrivial = staticmethod(B.nontrivial)
    histogram = staticmethod(B.histogram)
    pretty = staticmethod(B.pretty)

    @staticmethod
    def neighbours(lines, rng):
        return []


class VissPart:
    """the same store seen through the VISS websocket: values written through gRPC read back as texts over VISS (and the reverse), and the static-metadata tree against the registration (data type names, entry types, allowed lists, descriptions) - the clauses C15-meta / C15-bits of the VISS family"""
    FAM = 20
    CROSS_MAX = 0

    @staticmethod
    def generate(rng, tier):
        from .. import viss as VI
        n = 60 if tier == "quick" else 1500
        return [("vs%d" % i, VI.gen_case(rng, open_mode=(i % 6 == 5))) for i in range(n)]

    @staticmethod
    def compare(lines, m, i):
        from . import c20
        return c20.compare(lines, m, i)

    @staticmethod
    def monitor(lines, out):
        from .. import viss as VI
        return [f for f in VI.monitor(lines, out) if f.startswith(("C15-", "C20-codec", "C20-shared(C15"))]

    @staticmethod
    def nontrivial(lines, out):
        return hash(tuple(map(tuple, lines)))

    @staticmethod
    def histogram(lines, out):
        from . import c20
        return ["viss:" + h for h in c20.histogram(lines, out) if h.startswith("V")]

    @staticmethod
    def pretty(lines):
        from .. import viss as VI
        return VI.pretty(lines)

    @staticmethod
    def neighbours(lines, rng):
        return []


PARTS = [WirePart, ApiPart, VissPart]

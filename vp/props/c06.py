"""C06 — only authentic, unexpired, correctly addressed tokens open any RPC.
Real-server family: the databroker's own tonic server (with its interceptor) on loopback, every RPC of
the three services x token mutations x both authorization modes, tokens signed on the fly."""
import itertools

PID = "C06"
FAM = 6
SHRINK = False
# the VISS theorems (c06_viss_*) reach Flocq through the text codec of viss_set
ALLOWED_AXIOMS = {"Classical_Prop.classic", "ClassicalDedekindReals.sig_not_dec",
                  "ClassicalDedekindReals.sig_forall_dec",
                  "FunctionalExtensionality.functional_extensionality_dep"}
RPCS = ["v1.Get", "v1.Set", "v1.StreamedUpdate", "v1.Subscribe", "v1.GetServerInfo", "v2.GetValue", "v2.GetValues",
        "v2.Subscribe", "v2.SubscribeById", "v2.Actuate", "v2.BatchActuate", "v2.ListMetadata", "v2.PublishValue",
        "v2.OpenProviderStream", "v2.GetServerInfo", "sdv.GetDatapoints", "sdv.SetDatapoints", "sdv.Subscribe",
        "sdv.GetMetadata", "sdv.RegisterDatapoints", "sdv.UpdateDatapoints", "sdv.StreamDatapoints"]
FIELDS = ["alg", "key", "sig", "claims", "aud", "exp", "scope", "scheme"]
NAMES = {"alg": ["RS256", "HS256 keyed with the public key", "none", "RS384", "RS512"],
         "key": ["configured key", "another RSA key"],
         "sig": ["intact", "truncated", "one character changed", "payload replaced after signing",
                 "header replaced after signing"],
         "claims": ["all", "no sub", "no iss", "no iat", "no exp", "no scope", "no aud", "aud a string", "iat a string"],
         "aud": ['["kuksa.val"]', '["other"]', '["x","kuksa.val"]', "[]"],
         "scope": ["valid", "bogus:thing", "read:Vehicle.*x"],
         "scheme": ["Bearer ", "bearer ", "Basic ", "Bearer(no space)", "bare token"]}
GOOD = {"alg": 0, "key": 0, "sig": 0, "claims": 0, "aud": 0, "exp": 3600, "scope": 0, "scheme": 0}
VARIANTS = {"alg": [1, 2, 3, 4], "key": [1], "sig": [1, 2, 3, 4], "claims": [1, 2, 3, 4, 5, 6, 7, 8], "aud": [1, 2, 3],
            "exp": [-3600, -90, -30, 30, 86400, 1 << 62, (1 << 62) + 1], "scope": [1, 2], "scheme": [1, 2, 3, 4]}
WRITERS = {1, 2, 12, 13, 20, 21}
MANIFEST = {
    "text": "Coq model of admission (Model/Auth.v: a token described by its deviations from a freshly signed well-formed one; the interceptor in front of every RPC; a server with one signal per RPC). Theorems: a request is admitted iff it carries, under the Bearer scheme, a token that is RS256, signed by the configured key, intact, with all claims, addressed to kuksa.val, unexpired and with a valid scope; otherwise EVERY RPC answers UNAUTHENTICATED and nothing changes; changing any one part of an admitted token invalidates it; with authorization disabled every request is served as with full rights and never answered with an access error. Tied to the code on every run end to end: the databroker's own tonic server (serve_with_incoming_shutdown with Authorization::new(jwt.key.pub) or Disabled) is started on a loopback listener and every one of the 22 RPCs of kuksa.val.v1, kuksa.val.v2 and sdv.databroker.v1 (incl. the three client-streaming ones) is called through tonic clients with tokens signed on the fly: all single-field mutations (algorithm incl. HS256 keyed with the public key and 'none', foreign key, truncated / altered signature, payload or header replaced after signing, each claim missing or ill-typed, audience, expiry on both sides incl. inside jsonwebtoken's default leeway, invalid scope, wrong header scheme), no header, garbage, plus random multi-field mutations; status codes and the state after each block (what every writing RPC wrote, what was registered) are diffed against the extracted model, and an oracle written independently in Python judges the implementation's trace (an admitted well-formed request must be served, not merely not refused; no panic). Expiry mutations include the largest i64 / u64 number of seconds. Second part, the VISS socket: the real websocket server (viss::server::serve) on loopback with authorization enabled and with authorization disabled, requests carrying no token, a token that does not verify or a principal's token; model token kind TokOpen with theorems c06_viss_token_required, c06_viss_disabled_get (served exactly as v2 GetValue with ALLOW_ALL), c06_viss_disabled_get_refusal, c06_viss_disabled_subscribe; model and implementation are compared on the access class of every VISS reply. Also: one well-formed token expiring in 2 s is used at once and again, with the same header text, after its expiry: served, then refused (c06_same_token_after_expiry_refused; a verdict cache in front of the decoder is reported).",
    "note": "Trusted: Coq kernel (the gRPC theorems are axiom-free; the c06_viss_* theorems reach Flocq's 4 standard-library axioms through the text codec of viss_set, as Print Assumptions reports); extraction + OCaml driver (vm_compute cross-check); harness/src/fam_srv.rs (token construction with the jsonwebtoken crate and by hand for alg none / tampering; tonic clients), harness/src/fam_viss.rs (websocket client); loopback TCP. Modelled, not verified: RSA / base64 / JSON are not modelled (the token description states whether the signature is intact); over VISS only tokens that are absent, do not verify or are a principal's well-formed token are presented (the field-wise mutations go through the same Decoder that the gRPC part exercises).",
}
RULE = ("exhaustive: 22 RPCs x (well-formed token + 31 single-field mutations + no header + garbage + empty token) with "
        "authorization enabled, 22 RPCs x 6 headers with authorization disabled, plus seeded random multi-field "
        "mutations; blocks of 44 calls per server instance, state dump after every block; non-trivial = block in "
        "which at least one call is admitted and one refused; distinct = distinct (rpc, header) pairs")
TRUSTED = ["extraction: ExtrOcamlBasic only; driver ocaml/model_run.ml",
           "harness/src/fam_srv.rs: the real server (grpc::server::serve_with_incoming_shutdown) on 127.0.0.1, tonic clients, "
           "tokens signed with certificates/jwt/jwt.key (jsonwebtoken crate), foreign key certificates/Server.key",
           "python oracle in vp/props/c06.py"]
ASSUMPTIONS = ["expiry offsets are at least 30 s away from the moment of the call, so that the wall clock cannot change the verdict",
               "the well-formed token carries every scope (read actuate provide create); scope subsets are C03-C05's subject"]
EXHAUSTIVE = True


def exp_name(v):
    return {1 << 62: "exp = i64::MAX", (1 << 62) + 1: "exp = u64::MAX"}.get(v, "%+d s" % v)


def hdr(tok):
    return [1] + [tok[f] for f in FIELDS]


def headers_enabled():
    hs = [("good", hdr(GOOD)), ("no header", [0]), ("garbage", [2]), ("empty token", [3])]
    for f in FIELDS:
        for v in VARIANTS[f]:
            t = dict(GOOD)
            t[f] = v
            hs.append(("%s=%s" % (f, NAMES[f][v] if f != "exp" else exp_name(v)), hdr(t)))
    return hs


def generate(rng, tier):
    calls = []
    for rpc in range(22):
        for name, h in headers_enabled():
            calls.append((1, rpc, h))
    n_rand = 150 if tier == "quick" else 3000
    for _ in range(n_rand):
        t = dict(GOOD)
        for f in rng.sample(FIELDS, rng.choice([2, 2, 3])):
            t[f] = rng.choice(VARIANTS[f] + [GOOD[f]])
        calls.append((1, rng.randrange(22), hdr(t)))
    dis = []
    for rpc in range(22):
        for h in ([0], [2], [3], hdr(GOOD), hdr(dict(GOOD, sig=2)), hdr(dict(GOOD, exp=-3600))):
            dis.append((0, rpc, h))
    cases = []
    k = 1000
    # one well-formed token that expires in 2 s, used at once and used again after its expiry (the same header text):
    # served, then refused - no verdict on a token may outlive the token
    reuse = [0, 14, 12, 11] if tier == "quick" else list(range(22))
    for j in range(0, len(reuse), 4):
        lines = [[0, 1]]
        for rpc in reuse[j:j + 4]:
            lines.append([4, rpc, 0, k % 150] + hdr(dict(GOOD, exp=2)))
            k += 1
        lines.append([2])
        cases.append(("reuse%d" % j, lines))
    for mode, group in ((1, calls), (0, dis)):
        for i in range(0, len(group), 44):
            lines = [[0, mode]]
            for (_m, rpc, h) in group[i:i + 44]:
                lines.append([1, rpc, 0, k % 150] + h)
                k += 1
            lines.append([2])
            cases.append(("s%d_%d" % (mode, i // 44), lines))
    return cases


SERVED = {9: 14, 10: 14}


def admitted(h):
    """independent statement of the admission rule"""
    if h[0] != 1:
        return False
    t = dict(zip(FIELDS, h[1:]))
    return (t["alg"] == 0 and t["key"] == 0 and t["sig"] == 0 and t["claims"] == 0 and t["aud"] in (0, 2)
            and t["exp"] > 0 and t["scope"] == 0 and t["scheme"] == 0)


def describe(h):
    if h[0] == 0:
        return "no authorization header"
    if h[0] == 2:
        return "'Bearer abc.def'"
    if h[0] == 3:
        return "'Bearer ' with an empty token"
    t = dict(zip(FIELDS, h[1:]))
    dev = ["%s: %s" % (f, NAMES[f][t[f]] if f != "exp" else exp_name(t[f])) for f in FIELDS if t[f] != GOOD[f]]
    return "token (" + (", ".join(dev) or "well-formed") + ")"


def monitor(lines, out):
    fails = []
    mode = lines[0][1]
    if out and out[0] == [-77]:
        return ["panic: the server harness panicked"]
    values = {}
    registered = set()
    i = 0
    panics = 0
    for l in lines[1:]:
        if l[0] == 4:
            if i + 1 >= len(out):
                return fails + ["malformed-output: output shorter than the case"]
            rpc, k, h = l[1], l[3], l[4:]
            first, second = out[i][0], out[i + 1][0]
            i += 2
            if first != SERVED.get(rpc, 0):
                fails.append("C06-served: %s with a well-formed token (expiring in 2 s) answered %d" % (RPCS[rpc], first))
            elif rpc in WRITERS:
                values[rpc] = k
            elif rpc == 19:
                registered.add(k)
            if second != 16:
                fails.append("C06-expired-reuse: %s with the SAME token, re-sent after its expiry, answered %d, not "
                             "UNAUTHENTICATED" % (RPCS[rpc], second))
                if second == 0 and rpc in WRITERS:
                    values[rpc] = k
        elif l[0] == 1:
            if i >= len(out):
                return fails + ["malformed-output: output shorter than the case"]
            rpc, k, h = l[1], l[3], l[4:]
            code = out[i][0]
            i += 1
            ok = admitted(h)
            if mode == 1 and not ok:
                if code != 16:
                    fails.append("C06-open: %s with %s answered %d, not UNAUTHENTICATED" % (RPCS[rpc], describe(h), code))
            else:
                if code in (16, 7):
                    fails.append("C06-closed: %s with %s %s answered %d" % (
                        RPCS[rpc], describe(h), "(authorization disabled)" if mode == 0 else "", code))
                elif code != SERVED.get(rpc, 0):
                    # the requests of this family are well-formed: with full rights each is served (Actuate and
                    # BatchActuate answer UNAVAILABLE, there is no provider)
                    fails.append("C06-served: %s with %s %s answered %d instead of being served" % (
                        RPCS[rpc], describe(h), "(authorization disabled)" if mode == 0 else "", code))
            if len(out[i - 1]) > 1 and out[i - 1][1] > panics:
                panics = out[i - 1][1]
                fails.append("C06-panic: a panic was recorded while %s with %s was handled" % (RPCS[rpc], describe(h)))
            if mode == 1 and not ok:
                pass
            else:
                if code == 0:
                    if rpc in WRITERS:
                        values[rpc] = k
                    if rpc == 19:
                        registered.add(k)
        elif l[0] == 2:
            for o in out[i:i + 8]:
                if o[0] == 700:
                    got = o[3] if len(o) > 3 else None
                    if o[1] in WRITERS and got != values.get(o[1]):
                        fails.append("C06-effect: the signal written by %s holds %r, the last admitted write is %r" % (
                            RPCS[o[1]], got, values.get(o[1])))
                elif o[0] == 701:
                    if set(o[2:]) != registered:
                        fails.append("C06-effect: registered %s, admitted registrations %s" % (sorted(o[2:]), sorted(registered)))
            i += 8
    return fails


def nontrivial(lines, out):
    if any(l[0] == 4 for l in lines[1:]):
        return hash(tuple(map(tuple, lines)))
    adm = [admitted(l[4:]) for l in lines[1:] if l[0] == 1]
    return hash(tuple(map(tuple, lines))) if any(adm) and not all(adm) else None


def histogram(lines, out):
    h = []
    mode = lines[0][1]
    for l, o in zip([x for x in lines[1:] if x[0] == 1], out or []):
        h.append("mode %d %s -> %d" % (mode, "admitted" if admitted(l[4:]) else "not admitted", o[0]))
    return h


def pretty(lines):
    if not lines or lines[0][:1] != [0]:
        lines = [[0, 1]] + list(lines)
    out = ["authorization " + ("enabled" if lines[0][1] else "disabled")]
    for l in lines[1:]:
        out.append("DUMP" if l[0] == 2 else "%s value=%d with %s" % (RPCS[l[1]], l[3], describe(l[4:])))
    return out


def neighbours(lines, rng):
    return []


class Main:
    """the gRPC services behind the interceptor (family 6)"""
    FAM = 6
    SHRINK = False
    generate = staticmethod(generate)
    monitor = staticmethod(monitor)
    nontrivial = staticmethod(nontrivial)
    histogram = staticmethod(histogram)
    pretty = staticmethod(pretty)
    neighbours = staticmethod(neighbours)


def _access_class(r):
    """what C06 looks at in a VISS reply: refused for want of a (valid) token / of a right / anything else"""
    if r[:2] == [1, 401] and len(r) > 2 and r[2] in (2, 3, 4):
        return "token"
    if r[:2] == [1, 403]:
        return "forbidden"
    return "served-or-other"


class Viss:
    """the VISS socket (family 20): the real websocket server with authorization enabled (requests without a
    token, with a token that does not verify, with the principals' tokens) and with authorization disabled
    (the same requests, which must then all be served with full rights)"""
    FAM = 20

    @staticmethod
    def generate(rng, tier):
        from .. import viss as VI
        n = 60 if tier == "quick" else 1500
        return [("v%d" % i, VI.gen_case(rng, open_mode=(i % 3 != 0))) for i in range(n)]

    @staticmethod
    def compare(lines, m, i):
        from .. import viss as VI
        if m is not None and [99] in m:
            return True
        am, ai = VI.split(lines, m or []), VI.split(lines, i or [])
        if am is None or ai is None:
            return m == i
        pick = lambda al: [_access_class(o[0]) for (_l, d, o) in al if d and d["name"] in ("VGET", "VSET", "VSUB")]
        return pick(am) == pick(ai)

    @staticmethod
    def monitor(lines, out):
        from .. import viss as VI
        return [f for f in VI.monitor(lines, out) if f.startswith(("C06-", "C20-token", "C20-rights", "panic", "generator"))]

    @staticmethod
    def nontrivial(lines, out):
        from .. import viss as VI
        al = VI.split(lines, out)
        if al is None:
            return None
        cl = {_access_class(o[0]) for (_l, d, o) in al if d and d["name"] in ("VGET", "VSET", "VSUB")}
        opened = any(d and d.get("tok", ("",))[0] == "open" for (_l, d, o) in al)
        return hash(tuple(map(tuple, lines))) if (opened or len(cl) > 1) else None

    @staticmethod
    def histogram(lines, out):
        from .. import viss as VI
        al = VI.split(lines, out)
        if al is None:
            return ["viss: unaligned"]
        h = []
        for _l, d, o in al:
            if d and d["name"] in ("VGET", "VSET", "VSUB"):
                t = d["tok"]
                h.append("viss %s %s -> %s" % ("authorization disabled" if t[0] == "open" else "authorization enabled",
                                               (t[1][0] if t[0] == "open" else t[0]).replace("p", "principal token").replace("none", "no token").replace("bad", "bad token"),
                                               _access_class(o[0])))
        return h

    @staticmethod
    def pretty(lines):
        from .. import viss as VI
        return VI.pretty(lines)

    @staticmethod
    def neighbours(lines, rng):
        return []


PARTS = [Main, Viss]

"""C11 — no deadlock."""
import json
from .. import common as C
from .. import conc, concprop

PID = "C11"
FAM = 11
ALLOWED_AXIOMS = set()
KINDS = {1}
THEOREMS = ["c11_fifo_rw_deadlock_free", "c11_ops_well_ordered", "c11_every_call_completes", "c11_mutual_exclusion"]
MANIFEST = {
    "text": "Coq theorem, proved once and for all: any number of tasks running any well-bracketed programs that acquire locks in rank order over FIFO write-preferring read/write locks (tokio's RwLock discipline: queue, head-of-queue grant, shared readers, exclusive writers, downgrade) never reach a state where some task is unfinished and nothing can step; plus mutual exclusion of writers. The lock programs of all broker operations (19 operation/control-path variants) are shown well-ordered (database before subscriptions) by computation. The tie to the code is checked on every run: each operation is executed in isolation with the cfg-guarded hooks on and the recorded lock events must equal the modelled program; every lock acquisition in broker.rs must be instrumented (source inventory); and a scheduler that polls the REAL futures explores interleavings of 2-5 operations (exhaustive DFS for pairs, and for triples in thorough; seeded random beyond) looking for an unfinished call with nothing runnable.",
    "note": "Trusted: Coq kernel (axiom-free); the hooks (events faithfully bracket tokio's acquisition and release; a 'sec' event stands for a temporary guard living for one statement); the hand-written executor in harness/src/fam_conc.rs; tokio's RwLock really is FIFO write-preferring (modelled, read in tokio 1.41's source). Assumed as in the property: clients keep draining their streams (the two mpsc sends under lock are treated as non-blocking). Cancellation of a handler future is not modelled. The schedule search is a search for counterexamples, not part of the proof.",
    "technique": "machine-checked proof in Coq (generic FIFO-RW-lock deadlock freedom) + lock-trace correspondence + schedule search on the real futures",
}
RULE = ("lock traces: 19 operation/control-path variants, each recorded from the instrumented real code and compared "
        "with Conc.lock_program; schedule search: every pair of the ten operation kinds plus selected 3-5 task sets "
        "(every triple and a seventh of the quadruples in thorough), stateless DFS up to a budget and seeded random "
        "schedules; non-trivial = schedule with at least two tasks contending (distinct schedules counted)")
TRUSTED = ["hooks H1-H3 in /repo (feature verif-hooks)", "harness/src/fam_conc.rs (manual-poll executor)",
           "extraction: ExtrOcamlBasic only; driver ocaml/model_run.ml"]
ASSUMPTIONS = ["streams are drained by their clients (property text)", "tokio RwLock = FIFO write-preferring"]


def run(tier, seed, replay=None):
    import sys
    return concprop.run_conc_property(sys.modules[__name__], "C11", tier, seed, replay)

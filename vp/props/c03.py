"""C03 — history family, profile W_MIX (see vp/hist.py and vp/props/c01.py)."""
from .. import hist as H
from . import c01 as B

PID = "C03"
FAM = 1
ALLOWED_AXIOMS = {"Classical_Prop.classic", "ClassicalDedekindReals.sig_not_dec",
                  "ClassicalDedekindReals.sig_forall_dec",
                  "FunctionalExtensionality.functional_extensionality_dep"}
MANIFEST = {
    "text": "Coq theorems over the broker model: read_entry hands out an entry only with can_read = Ok at that moment; initial snapshots and change notifications contain only readable entries and the stored state; for EVERY history no message ever put into a subscriber's stream names a signal outside the subscriber's scopes (history invariant by induction over all operations); an expired subscription receives nothing more and is removed by housekeeping. Tied to the code by generated histories with adversarial scope sets (partial names, '*' levels, actions that imply read) and tokens that expire mid-history (real clock), diffed operation by operation against the real AuthorizedAccess API; a permission oracle independent of the model judges every value in every implementation message.",
    "note": "Trusted: Coq kernel; the 4 standard-library axioms that enter through Flocq (used by validate's float comparisons) as printed by Print Assumptions; extraction + OCaml driver (vm_compute cross-check each run); harness/src/fam_hist.rs and hook H3 (verif_housekeeping_step); the Python monitors. Modelled, not verified: tokio broadcast (ring with capacity rounded up to a power of two, Lagged skipping) and RwLock, HashMap iteration order (outputs are sorted), the gRPC handlers on top of AuthorizedAccess (exercised by the handler-level checks), SystemTime (a timestamp is canonicalised to the operation during which it was taken; expiry is crossed in real time at a TICK).",
}
PROPS = set("C03".split(","))
WEIGHTS = dict(H.W_MIX, tick=1.5, get=5)
RULE = B.RULE
TRUSTED = B.TRUSTED
ASSUMPTIONS = B.ASSUMPTIONS


def generate(rng, tier, n=None, **kw):
    return B.generate(rng, tier, weights=WEIGHTS, n=n, **GEN_KW)


GEN_KW = {}


def monitor(lines, out):
    return H.monitor(lines, out, PROPS)


nontrivial = B.nontrivial
histogram = B.histogram
pretty = B.pretty
neighbours = B.neighbours

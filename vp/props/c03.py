"""C03 — history family, profile W_MIX (see vp/hist.py and vp/props/c01.py)."""
from .. import hist as H
from . import c01 as B

PID = "C03"
FAM = 1
ALLOWED_AXIOMS = set()
PROPS = set("C03".split(","))
WEIGHTS = H.W_MIX
RULE = B.RULE
TRUSTED = B.TRUSTED
ASSUMPTIONS = B.ASSUMPTIONS


def generate(rng, tier, n=None, **kw):
    return B.generate(rng, tier, weights=WEIGHTS, n=n, **GEN_KW)


GEN_KW = {}


def monitor(lines, out):
    return H.monitor(lines, out, PROPS)


nontrivial = B.nontrivial
histogram = B.histogram
pretty = B.pretty
neighbours = B.neighbours

"""C03 — history family, profile W_MIX (see vp/hist.py and vp/props/c01.py)."""
from .. import hist as H
from . import c01 as B

PID = "C03"
FAM = 1
ALLOWED_AXIOMS = {"Classical_Prop.classic", "ClassicalDedekindReals.sig_not_dec",
                  "ClassicalDedekindReals.sig_forall_dec",
                  "FunctionalExtensionality.functional_extensionality_dep"}
MANIFEST = {
    "text": "Coq theorems over the broker model: read_entry hands out an entry only with can_read = Ok at that moment; initial snapshots and change notifications contain only readable entries and the stored state; for EVERY history no message ever put into a subscriber's stream names a signal outside the subscriber's scopes (history invariant by induction over all operations); an expired subscription receives nothing more and is removed by housekeeping. Tied to the code by generated histories with adversarial scope sets (partial names, '*' levels, actions that imply read) and tokens that expire mid-history (real clock), diffed operation by operation against the real AuthorizedAccess API; a permission oracle independent of the model judges every value in every implementation message. Second part: reads and subscriptions through the gRPC handlers (v1 Get with every view, v2 GetValue(s), sdv GetDatapoints; kuksa.val.v1 Subscribe, kuksa.val.v2 Subscribe / SubscribeById) by principals with partial and expiring scopes, rewritten into core operations for the same non-disclosure clauses; theorem c03_v1_subscribe_only_readable. Third part: query subscriptions (core API and sdv Subscribe) by principals with partial and expiring scopes; no response may carry, under the name or alias of a plain signal, the value of a signal its subscriber cannot read (C03-query).",
    "note": "Trusted: Coq kernel; the 4 standard-library axioms that enter through Flocq (used by validate's float comparisons) as printed by Print Assumptions; extraction + OCaml driver (vm_compute cross-check each run); harness/src/fam_hist.rs and hook H3 (verif_housekeeping_step); the Python monitors. Modelled, not verified: tokio broadcast (ring with capacity rounded up to a power of two, Lagged skipping) and RwLock, HashMap iteration order (outputs are sorted), the gRPC handlers on top of AuthorizedAccess (exercised by the handler-level checks), SystemTime (a timestamp is canonicalised to the operation during which it was taken; expiry is crossed in real time at a TICK).",
}
PROPS = set("C03".split(","))
WEIGHTS = dict(H.W_MIX, tick=1.5, get=5)
RULE = B.RULE
TRUSTED = B.TRUSTED
ASSUMPTIONS = B.ASSUMPTIONS


def generate(rng, tier, n=None, **kw):
    return B.generate(rng, tier, weights=WEIGHTS, n=n, **GEN_KW)


GEN_KW = {}


def monitor(lines, out):
    return H.monitor(lines, out, PROPS)


nontrivial = B.nontrivial
histogram = B.histogram
pretty = B.pretty
neighbours = B.neighbours


class Core:
    """subscriptions through the in-process API"""
    FAM = 1
    generate = staticmethod(generate)
    monitor = staticmethod(monitor)
    nontrivial = staticmethod(nontrivial)
    histogram = staticmethod(histogram)
    pretty = staticmethod(pretty)
    neighbours = staticmethod(neighbours)


class HandlerSubs:
    """reads and subscriptions through the gRPC handlers (v1 Get, v2 GetValue(s), sdv GetDatapoints; kuksa.val.v1
    Subscribe by leaf / branch path and field set, kuksa.val.v2 Subscribe by paths and SubscribeById) by principals
    with partial and expiring scopes; handler traffic is rewritten into core operations and judged by the same
    non-disclosure clauses"""
    FAM = 1

    @staticmethod
    def generate(rng, tier):
        n = 150 if tier == "quick" else 4000
        # handler subscriptions, and the reading handlers of the three services (v1 Get with every view, v2
        # GetValue(s), sdv GetDatapoints) by principals with partial and expiring scopes
        api = dict(H.W_API, tick=1.2, v1get=5, v2get=4, v2gets=3, sdvget=4)
        return [("hs%d" % i, H.gen_history(rng, H.W_APISUB if i % 2 else api, plain_meta=0.6)) for i in range(n)]

    @staticmethod
    def compare(lines, m, i):
        # over kuksa.val.v1 a datapoint without a value is absent (and its timestamp with it); which of several
        # failing entries of one v1 Subscribe is reported is not determined
        return H.same_handler_subs(lines, m, i)

    monitor = staticmethod(monitor)
    pretty = staticmethod(pretty)
    neighbours = staticmethod(neighbours)

    @staticmethod
    def nontrivial(lines, out):
        al = H.split_outputs(lines, out)
        if al is None:
            return None
        ok = any(d["op"] in (H.V1SUB, H.V2SUB) and o and o[0][:1] == [0] for d, o in al)
        got = any(d["name"] == "RECV" and len(o) > 1 for d, o in al)
        return hash(tuple(map(tuple, lines))) if ok and got else None

    @staticmethod
    def histogram(lines, out):
        al = H.split_outputs(lines, out)
        h = ["op:" + (H.OPN[l[0]] if 0 <= l[0] < len(H.OPN) else "?") for l in lines]
        if al:
            for d, o in al:
                if d["op"] in (H.V1SUB, H.V2SUB) and o:
                    h.append("%s -> %s" % (d["name"], "ok" if o[0][:1] == [0] else "status %s" % o[0][1:2]))
        return h


class QueryResults:
    """query subscriptions (core API and sdv Subscribe) by principals with partial and expiring scopes: no response
    may carry the value of a signal its subscriber cannot read (the query family of C12; here only the
    non-disclosure clause is judged, the SQL reading is C12's subject)"""
    FAM = 16

    @staticmethod
    def generate(rng, tier):
        from .. import query as Q
        n = 120 if tier == "quick" else 3000
        return [("q%d" % i, Q.gen_case(rng)) for i in range(n)]

    @staticmethod
    def compare(lines, m, i):
        from . import c12
        return c12.Main.compare(lines, m, i)

    @staticmethod
    def monitor(lines, out):
        from .. import query as Q
        return Q.disclosure_monitor(lines, out)

    @staticmethod
    def nontrivial(lines, out):
        from . import c12
        return c12.Main.nontrivial(lines, out)

    @staticmethod
    def histogram(lines, out):
        return []

    @staticmethod
    def pretty(lines):
        from .. import query as Q
        return Q.pretty(lines)

    @staticmethod
    def neighbours(lines, rng):
        return []


PARTS = [Core, HandlerSubs, QueryResults]

"""C10 — history family, profile W_ACT (see vp/hist.py and vp/props/c01.py)."""
from .. import hist as H
from . import c01 as B

PID = "C10"
FAM = 1
ALLOWED_AXIOMS = {"Classical_Prop.classic", "ClassicalDedekindReals.sig_not_dec",
                  "ClassicalDedekindReals.sig_forall_dec",
                  "FunctionalExtensionality.functional_extensionality_dep"}
MANIFEST = {
    "text": 'Coq theorem: in every state reachable by any sequential history the live claims on actuators are pairwise disjoint; a refused claim registers nothing; actuation of an actuator whose owner is gone or expired fails (not succeeds) and housekeeping releases the claim. This check covers the sequential part of C10; the all-interleavings part is decided by the schedule machinery (see C11/C08 section of DESIGN.md) once registered. Tied to the code by claim / disconnect / expiry / re-claim histories.',
    "note": "Trusted: Coq kernel; the 4 standard-library axioms that enter through Flocq (used by validate's float comparisons) as printed by Print Assumptions; extraction + OCaml driver (vm_compute cross-check each run); harness/src/fam_hist.rs and hook H3 (verif_housekeeping_step); the Python monitors. Modelled, not verified: tokio broadcast (ring with capacity rounded up to a power of two, Lagged skipping) and RwLock, HashMap iteration order (outputs are sorted), the gRPC handlers on top of AuthorizedAccess (exercised by the handler-level checks), SystemTime (a timestamp is canonicalised to the operation during which it was taken; expiry is crossed in real time at a TICK).",
}
PROPS = set("C10".split(","))
WEIGHTS = H.W_ACT
RULE = B.RULE
TRUSTED = B.TRUSTED
ASSUMPTIONS = B.ASSUMPTIONS


def generate(rng, tier, n=None, **kw):
    return B.generate(rng, tier, weights=WEIGHTS, n=n, **GEN_KW)


GEN_KW = {}


def monitor(lines, out):
    return H.monitor(lines, out, PROPS)


nontrivial = B.nontrivial
histogram = B.histogram
pretty = B.pretty
neighbours = B.neighbours


def post(tier, seed):
    from .. import concprop
    return concprop.stage(PID, "C10", {4}, tier, seed, ['c10_exclusive_all_schedules'])

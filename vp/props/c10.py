"""C10 — history family, profile W_ACT (see vp/hist.py and vp/props/c01.py)."""
from .. import hist as H
from . import c01 as B

PID = "C10"
FAM = 1
ALLOWED_AXIOMS = {"Classical_Prop.classic", "ClassicalDedekindReals.sig_not_dec",
                  "ClassicalDedekindReals.sig_forall_dec",
                  "FunctionalExtensionality.functional_extensionality_dep"}
MANIFEST = {
    "text": "Coq theorems: in every state reachable by any sequential history the live claims on actuators are pairwise disjoint; a refused claim registers nothing; actuation of an actuator whose owner is gone or expired fails (not succeeds) and housekeeping releases the claim; and the disjointness invariant holds after any interleaving of concurrent claims, disconnects and housekeeping runs at lock granularity (c10_exclusive_all_schedules, an instance of the generic interleaving-invariant theorem). Tied to the code by claim / disconnect / expiry / re-claim histories, including scripted loss scenarios (the provider's token expires or its stream is dropped; single and batch actuation by a live caller before and after housekeeping; a second provider claims) judged by the clauses C10-lost and C10-release; by the lock-trace correspondence of provide_actuation / cleanup; and by a schedule search polling the real futures of competing claims. Also: loss scenarios in which the owner sits behind the kuksa.val.v2 OpenProviderStream handler (called in process) and is lost by dropping its response stream, so that the handler's own Provider::is_available decides; a stale registration removed by housekeeping between the two phases of a claim in the schedule explorer (task kind 15); claims refused as already existing need an earlier accepted claim.",
    "note": "Trusted: Coq kernel; the 4 standard-library axioms that enter through Flocq (used by validate's float comparisons) as printed by Print Assumptions; extraction + OCaml driver (vm_compute cross-check each run); harness/src/fam_hist.rs and hook H3 (verif_housekeeping_step); the Python monitors. Modelled, not verified: tokio broadcast (ring with capacity rounded up to a power of two, Lagged skipping) and RwLock, HashMap iteration order (outputs are sorted), the gRPC handlers on top of AuthorizedAccess (exercised by the handler-level checks), SystemTime (a timestamp is canonicalised to the operation during which it was taken; expiry is crossed in real time at a TICK).",
}
PROPS = set("C10".split(","))
WEIGHTS = H.W_ACT
RULE = B.RULE
TRUSTED = B.TRUSTED
ASSUMPTIONS = B.ASSUMPTIONS


def loss_scenario(rng):
    """the owner of an actuator is lost (token expiry or disconnect): actuation fails until housekeeping,
    afterwards the actuator can be claimed again"""
    from .. import enc as E
    L = [[H.PERM, 0] + E.s(H.ALL_SCOPE),
         [H.PERM, 1] + E.s(rng.choice(["actuate provide read", "actuate", H.ALL_SCOPE, "actuate:Vehicle read:Vehicle"]))]
    n = rng.randrange(2, 5)
    for i in range(n):
        L.append([H.ADD, 0] + E.s("Vehicle.Act%d" % i) + [4, rng.randrange(3), 2, 0, 0, 0])
    by_expiry = rng.random() < 0.6
    owner = 1 if by_expiry else 0
    mine = rng.sample(range(n), rng.randrange(1, n))
    if not by_expiry and rng.random() < 0.5:
        # the owner sits behind the kuksa.val.v2 OpenProviderStream handler (in process): it is lost by dropping its
        # response stream, so that the handler's own Provider::is_available decides
        L.append([H.LPROV, owner, len(mine)] + sum(([3, i] for i in mine), []))
    else:
        L.append([H.PROVIDE, owner, len(mine)] + mine)
    others = [i for i in range(n) if i not in mine]
    if others and rng.random() < 0.5:
        L.append([H.PROVIDE, 0, len(others)] + others)
    act = lambda p, i: [H.ACTUATE, p, i, E.I32, rng.randrange(100)]
    batch = lambda p, ids: [H.BATCH, p, len(ids)] + sum(([i, E.I32, rng.randrange(100)] for i in ids), [])
    L += [act(0, mine[0]), [H.DUMP]]
    L.append([H.TICK] if by_expiry else [H.PROVDOWN, 0])
    steps = [act(0, rng.choice(mine)), batch(0, rng.sample(mine, len(mine)) + (others[:1] if others else [])),
             batch(0, [mine[0], mine[0]]), [H.PROVIDE, 0, 1, mine[0]], act(0, rng.choice(mine))]
    rng.shuffle(steps)
    for st in steps[:rng.randrange(2, 6)]:
        L += [st, [H.DUMP]]
    L += [[H.CLEANUP], [H.DUMP], [H.PROVIDE, 0, len(mine)] + mine, [H.DUMP], act(0, mine[0]), batch(0, mine), [H.DUMP]]
    return L


def generate(rng, tier, n=None, **kw):
    cases = B.generate(rng, tier, weights=WEIGHTS, n=n, **GEN_KW)
    k = 40 if tier == "quick" else 600
    # ... and the provider-stream scenarios (claims through kuksa.val.v2 OpenProviderStream on the real server, incl.
    # claims that must be refused as a whole and register nothing)
    return cases + [("loss%d" % i, loss_scenario(rng)) for i in range(k)] + \
        [("st%d" % i, H.stream_scenario(rng)) for i in range(30 if tier == "quick" else 400)]


GEN_KW = {}


def monitor(lines, out):
    return H.monitor(lines, out, PROPS)


nontrivial = B.nontrivial
histogram = B.histogram
pretty = B.pretty
neighbours = B.neighbours


def post(tier, seed):
    from .. import concprop
    return concprop.stage(PID, "C10", {4}, tier, seed, ['c10_exclusive_all_schedules'])

"""C13 — cross-type numeric comparison."""
from fractions import Fraction
from .. import enc as E

PID = "C13"
FAM = 13
ALLOWED_AXIOMS = {
    "Classical_Prop.classic",
    "ClassicalDedekindReals.sig_not_dec",
    "ClassicalDedekindReals.sig_forall_dec",
    "FunctionalExtensionality.functional_extensionality_dep",
}
MANIFEST = {
    "text": "Coq theorems about a Gallina transcription of DataValue::{greater_than,equals,..} (all 36 numeric kind pairs, Flocq IEEE-754 for f32/f64): every answer is the exact order of the numbers represented, equality answers true only within the epsilon and always for identical finite numbers, declining only for non-numeric operands or i64/u64 outside the 32-bit range against a float. The model is tied to the code on every run by an exhaustive bit-exact differential sweep (5 functions x 36 kind pairs x boundary pool, ~1.6e5 calls) plus an exact-rational monitor on the implementation's answers.",
    "note": "Trusted: Coq kernel; Flocq; the 4 classical/real-number axioms of Coq's standard library that Flocq's reals depend on (as printed by Print Assumptions); extraction (ExtrOcamlBasic) + OCaml driver, cross-checked by vm_compute on a sample each run; the Rust harness and Python differ. The theorem is about the model; the code is covered by the exhaustive-cell correspondence, not by proof.",
    "technique": "machine-checked proof in Coq (Flocq) + exhaustive differential correspondence",
}
EXHAUSTIVE = True
SHRINK = False
RULE = ("full cross product: 5 functions (gt, gte, lt, lte, eq) x 6x6 numeric kind pairs x a "
        "boundary-dense value pool per kind (type limits, 2^24+-1, 2^31, 2^32, 2^53+-1, 2^63, +-0, "
        "subnormals, +-inf, NaN, neighbours within 1 ulp / epsilon), plus all 17x17 kind pairs on one "
        "representative each (refusal table), plus seeded random values; a case is non-trivial when "
        "the implementation gave an answer (Ok) or declined for a numeric pair; distinct = distinct "
        "(function, kind a, kind b, answer, exact-order relation) tuples")
TRUSTED = [
    "Flocq 4 IEEE-754 formalisation (binary32/binary64 semantics of the model's float operations)",
    "extraction: ExtrOcamlBasic only (Extract Inductive bool, option, unit, list, prod, sumbool, sumor; "
    "Extract Inlined Constant andb, orb); OCaml 4.13.1; driver ocaml/model_run.ml",
    "correspondence harness: harness/src/fam_cmp.rs calling databroker::types::DataValue::* directly",
    "python exact-rational monitor vp/props/c13.py",
]
ASSUMPTIONS = ["the model's float operations are Flocq's; the Rust side uses the hardware's IEEE-754",
               "infinities are outside the equality domain (property text)"]

OPS = ["gt", "gte", "lt", "lte", "eq"]

F = E.f32_bits
D = E.f64_bits
P_I32 = [0, 1, -1, 2, 7, 100, -100, 2**24, 2**24 + 1, 2**24 - 1, -(2**24) - 1, 2**31 - 1, -2**31, 2**31 - 2,
         -2**31 + 1, 16777217, 123456789]
P_I64 = P_I32 + [2**31, 2**31 + 1, -2**31 - 1, 2**32, 2**32 - 1, 2**32 + 1, 2**53, 2**53 + 1, 2**53 - 1,
                 -(2**53) - 1, 2**63 - 1, -2**63, 2**62, -2**63 + 1]
P_U32 = [0, 1, 2, 7, 100, 2**24, 2**24 + 1, 2**24 - 1, 2**31 - 1, 2**31, 2**31 + 1, 2**32 - 1, 2**32 - 2]
P_U64 = P_U32 + [2**32, 2**32 + 1, 2**53, 2**53 + 1, 2**53 - 1, 2**63 - 1, 2**63, 2**63 + 1, 2**64 - 1,
                 2**64 - 2]
_f32 = [0.0, -0.0, 1.0, -1.0, 2.0, 7.0, 100.0, -100.0, 0.5, 1.5, 16777216.0, 16777218.0, 2147483648.0,
        -2147483648.0, 4294967296.0, 9007199254740992.0, 9223372036854775808.0, 3.4028234663852886e38,
        -3.4028234663852886e38, 1.1754943508222875e-38, 1e-45, -1e-45, float("inf"), float("-inf")]
P_F32 = sorted(set([F(x) for x in _f32] + [0x7FC00000, 0xFFC00001, 0x7F800001,
               F(1.0) + 1, F(1.0) - 1, F(1.0) + 2, F(100.0) + 1, F(2.0) - 1, F(7.0) + 1, F(16777216.0) - 1,
               F(2147483648.0) - 1, F(4294967296.0) - 1, F(0.1), F(123456789.0)]))
_f64 = [0.0, -0.0, 1.0, -1.0, 2.0, 7.0, 100.0, -100.0, 0.5, 1.5, 16777216.0, 16777217.0, 16777215.0,
        2147483647.0, 2147483648.0, -2147483648.0, -2147483649.0, 4294967295.0, 4294967296.0,
        9007199254740992.0, 9007199254740994.0, 9223372036854775808.0, 18446744073709551616.0,
        1.7976931348623157e308, -1.7976931348623157e308, 2.2250738585072014e-308, 5e-324, -5e-324,
        float("inf"), float("-inf"), 0.1, 123456789.0, 2147483646.5, 4294967294.5]
P_F64 = sorted(set([D(x) for x in _f64] + [0x7FF8000000000000, 0xFFF8000000000001, 0x7FF0000000000001,
               D(1.0) + 1, D(1.0) - 1, D(1.0) + 2, D(100.0) + 1, D(100.0) - 1, D(2.0) - 1, D(7.0) + 1,
               D(7.0) - 1, D(16777216.0) + 1, D(2147483648.0) - 1, D(2147483647.0) + 1,
               D(4294967296.0) - 1, D(4294967295.0) + 1, D(9007199254740992.0) - 1,
               D(2.220446049250313e-16), D(2.220446049250313e-16) + 1, D(2.220446049250313e-16) - 1,
               D(1.1920928955078125e-07), D(-2.220446049250313e-16), D(0.5) + 1]))
POOLS = {E.I32: P_I32, E.I64: P_I64, E.U32: P_U32, E.U64: P_U64, E.F32: P_F32, E.F64: P_F64}
REPR = {E.NA: None, E.BOOL: True, E.STR: "abc", E.BOOLA: [True], E.STRA: ["a"], E.I32A: [1],
        E.I64A: [1], E.U32A: [1], E.U64A: [1], E.F32A: [F(1.0)], E.F64A: [D(1.0)],
        E.I32: 1, E.I64: 1, E.U32: 1, E.U64: 1, E.F32: F(1.0), E.F64: D(1.0)}


def rand_val(rng, k):
    if k == E.I32:
        return rng.choice([rng.randint(-2**31, 2**31 - 1), rng.randint(-1000, 1000)])
    if k == E.I64:
        return rng.choice([rng.randint(-2**63, 2**63 - 1), rng.randint(-2**33, 2**33), rng.randint(-1000, 1000)])
    if k == E.U32:
        return rng.choice([rng.randint(0, 2**32 - 1), rng.randint(0, 1000)])
    if k == E.U64:
        return rng.choice([rng.randint(0, 2**64 - 1), rng.randint(0, 2**33), rng.randint(0, 1000)])
    if k == E.F32:
        return rng.choice([rng.randint(0, 2**32 - 1), F(float(rng.randint(-1000, 1000))),
                           F(rng.uniform(-1e6, 1e6))])
    return rng.choice([rng.randint(0, 2**64 - 1), D(float(rng.randint(-2**33, 2**33))),
                       D(rng.uniform(-1e12, 1e12))])


def generate(rng, tier):
    cases = []
    n = 0

    def add(op, a, b):
        nonlocal n
        cases.append(("c%d" % n, [[op] + a + b]))
        n += 1
    for ka in POOLS:
        for kb in POOLS:
            for a in POOLS[ka]:
                for b in POOLS[kb]:
                    for op in range(5):
                        add(op, E.val(ka, a), E.val(kb, b))
    for ka in range(17):
        for kb in range(17):
            for op in range(5):
                add(op, E.val(ka, REPR[ka]), E.val(kb, REPR[kb]))
    nr = 4000 if tier == "quick" else 200000
    ks = list(POOLS)
    for _ in range(nr):
        ka, kb = rng.choice(ks), rng.choice(ks)
        a = rand_val(rng, ka)
        # half of the random pairs are near each other (same number in another kind, or off by one)
        if rng.random() < 0.5:
            ea = E.exact(ka, a)
            b = None
            if isinstance(ea, Fraction):
                z = int(ea) + rng.choice([-1, 0, 0, 1])
                if kb == E.I32 and -2**31 <= z < 2**31: b = z
                if kb == E.I64 and -2**63 <= z < 2**63: b = z
                if kb == E.U32 and 0 <= z < 2**32: b = z
                if kb == E.U64 and 0 <= z < 2**64: b = z
                if kb == E.F32 and abs(z) < 2**100: b = F(float(z))
                if kb == E.F64 and abs(z) < 2**1000: b = D(float(z))
            if b is None:
                b = rand_val(rng, kb)
        else:
            b = rand_val(rng, kb)
        add(rng.randrange(5), E.val(ka, a), E.val(kb, b))
    return cases


EPS64 = Fraction(1, 2**52)
EPS32 = Fraction(1, 2**23)


def _parse(lines):
    t = lines[0]
    op = t[0]
    a, i = E.dec_val(t, 1)
    b, _ = E.dec_val(t, i)
    return op, a, b


def _order(x, y):
    """exact order of two extended reals: '<', '=', '>' or '?' when a NaN is involved"""
    if x == "nan" or y == "nan":
        return "?"
    rank = lambda v: (-1, 0) if v == "-inf" else (1, 0) if v == "+inf" else (0, v)
    rx, ry = rank(x), rank(y)
    return "<" if rx < ry else ">" if rx > ry else "="


def _gt_expected(x, y):
    return _order(x, y) == ">"


def may_decline(a, b):
    """the documented unrepresentable conversions: i64 outside i32 / u64 outside u32 against a float"""
    def wide(k, p):
        return (k == E.I64 and not (-2**31 <= p < 2**31)) or (k == E.U64 and not (p < 2**32))
    fl = (E.F32, E.F64)
    return (wide(*a) and b[0] in fl) or (wide(*b) and a[0] in fl)


def monitor(lines, out):
    if not out:
        return ["no-output: implementation produced no line"]
    op, a, b = _parse(lines)
    r = out[0]
    if r == [-77]:
        return ["panic: comparison panicked"]
    x, y = E.exact(*a), E.exact(*b)
    numeric = x is not None and y is not None
    fails = []
    if r == [0]:
        if numeric and not may_decline(a, b):
            fails.append("declined: %s declined for a representable numeric pair" % OPS[op])
        return fails
    if not numeric:
        # answers for non-numeric operands: only eq on Bool/Bool, String/String, or NotAvailable
        # against a number (false) are defined
        return fails
    ans = bool(r[1])
    eps = EPS32 if (a[0] == E.F32 and b[0] == E.F32) else EPS64
    inf = lambda v: v in ("+inf", "-inf")
    if op in (0, 2):
        exp = _gt_expected(x, y) if op == 0 else _gt_expected(y, x)
        if ans != exp:
            fails.append("order: %s answered %s but exact order is %s" % (OPS[op], ans, _order(x, y)))
    elif op == 4:
        if ans:
            if not (isinstance(x, Fraction) and isinstance(y, Fraction) and abs(x - y) < eps):
                fails.append("eq-tolerance: eq answered true for numbers at least epsilon apart")
        else:
            if isinstance(x, Fraction) and isinstance(y, Fraction) and x == y:
                fails.append("eq-identical: eq answered false for identical numbers")
    else:
        o = _order(x, y) if op == 1 else _order(y, x)
        xx, yy = (x, y) if op == 1 else (y, x)
        close = isinstance(xx, Fraction) and isinstance(yy, Fraction) and abs(xx - yy) < eps
        if ans and not (o == ">" or close):
            fails.append("order: %s answered true but operand is smaller by at least epsilon" % OPS[op])
        if (not ans) and (o == ">" or (o == "=" and not inf(xx))):
            fails.append("order: %s answered false but exact order is %s" % (OPS[op], o))
    return fails


def nontrivial(lines, out):
    if not out or out[0] == [-1]:
        return None
    op, a, b = _parse(lines)
    x, y = E.exact(*a), E.exact(*b)
    if x is None or y is None:
        return None
    return (op, a[0], b[0], tuple(out[0]), _order(x, y))


def histogram(lines, out):
    op, a, b = _parse(lines)
    res = "Err" if out and out[0] == [0] else "Ok" if out and out[0][0] == 1 else "bad"
    return ["fn:" + OPS[op], "pair:%s/%s" % (E.KIND_NAMES[a[0]], E.KIND_NAMES[b[0]]), "result:" + res]


def pretty(lines):
    op, a, b = _parse(lines)
    return "%s.%s(%s)" % (E.show_val(a), {0: "greater_than", 1: "greater_than_equal", 2: "less_than",
                                           3: "less_than_equal", 4: "equals"}[op], E.show_val(b))


def neighbours(lines, rng):
    op, a, b = _parse(lines)
    out = []
    for o in range(5):
        out.append([[o] + E.val(*a) + E.val(*b)])
        out.append([[o] + E.val(*b) + E.val(*a)])
    for ka in POOLS:
        if ka == a[0]:
            for v in POOLS[ka]:
                out.append([[op] + E.val(ka, v) + E.val(*b)])
    for kb in POOLS:
        if kb == b[0]:
            for v in POOLS[kb]:
                out.append([[op] + E.val(*a) + E.val(kb, v)])
    return out

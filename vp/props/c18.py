"""C18 — every request gets an answer: no input crashes a handler or wedges the broker.
Parts: structural request shapes through the real server (every RPC, incl. the streaming ones, with a
probe after each request), handler-level histories with absent / invalid parts (diffed against the
model), free-text queries; plus the panic-site inventory of the source."""
import json, random, sys
from .. import common as C
from .. import hist as H
from .. import inventory as INV
from .. import query as Q
from . import c01 as B
from . import c06 as A
from . import c12 as Q12

PID = "C18"
ALLOWED_AXIOMS = {"Classical_Prop.classic", "ClassicalDedekindReals.sig_not_dec",
                  "ClassicalDedekindReals.sig_forall_dec",
                  "FunctionalExtensionality.functional_extensionality_dep"}
MANIFEST = {
    "text": "Coq theorems over the handler and query models: GetValue / PublishValue / Actuate / BatchActuate with signal_id, oneof, data_point or value absent are answered INVALID_ARGUMENT; an absent value is NotAvailable; a request answered with an error leaves the store (publish) resp. the whole state (actuate, batch) exactly as it was, so the broker keeps serving; the executor arm guarded by debug_assert (unresolved literal) is unreachable from every compiled query, and LAG with other than one plain argument, other functions and unary minus are answered with a compilation error. Tied to the code on every run: (1) the databroker's own tonic server on loopback is sent every RPC of the three services (incl. the three client-streaming ones) in 170 structural shapes - every optional message part absent, oneofs unset, enums out of range, empty / 1001- / 100000-character paths, 100000-element arrays, 1000-element batches, extreme timestamps, queries at and beyond the size limits - each followed by a probe (write, read back, list metadata) that must succeed, with the panic hook counting panics and a crashed or silent server reported with the request; (2) handler-level histories with absent and invalid parts are diffed against the extracted model, a panicking operation being reported per operation while the history goes on; (3) free-text queries; (4) a panic-site inventory: every unwrap / expect / todo! / index / assert in the production code of the request path must be listed in panic_inventory.json with the reason why no request reaches it. Fourth part: what gRPC clients wrote (client timestamps from the year 2001, the year 10000 and 9e12 s before / after the epoch; long non-ASCII strings) is read over the VISS socket, and long multi-byte VISS frames (2-, 3-, 4-byte characters in every alignment across 1 KiB ... 8 KiB) are sent: every VISS request must be answered and nothing may panic.",
    "note": "Partial by nature: the theorems cover the handlers the model has (Model/Api.v: Get/Set/GetValue(s)/PublishValue/Actuate/BatchActuate/ListMetadata/sdv Get/Set/Update/Register/GetMetadata and the query compiler/executor); Subscribe variants, provider and collector streams and GetServerInfo are covered by the structural enumeration only; panics inside libraries (tonic, prost, sqlparser) are reachable only by that enumeration. Memory exhaustion and slow clients are not covered: a query subscriber that stops reading blocks writers once its 10-slot channel is full (DESIGN.md, limits). Trusted: Coq kernel; Flocq's stdlib axioms; extraction; harness/src/fam_srv.rs, fam_shapes.rs, fam_hist.rs; vp/inventory.py (a textual scan). The VISS socket is covered by C20.",
}
RULE = ("exhaustive over the catalogue: 22 RPCs x their structural variants (170 request shapes, harness/src/fam_shapes.rs) plus 28 texts with multi-byte characters straddling the path limit (1000 bytes) and the query limit (4096 bytes) in every alignment, put into every text slot of every RPC (644 more shapes), "
        "each on the real server followed by a probe; seeded handler-level histories (absent signal_id / oneof / datapoint "
        "/ value, unknown enum numbers, over-long paths); seeded free-text queries; the inventory compares every "
        "panic-capable construct of 23 source files with panic_inventory.json; non-trivial = a request answered with an "
        "error status followed by a successful probe; distinct = distinct (rpc, variant) pairs / operation sequences")
TRUSTED = ["extraction: ExtrOcamlBasic only; driver ocaml/model_run.ml",
           "harness/src/fam_srv.rs + fam_shapes.rs (real tonic server on 127.0.0.1, tonic clients, panic hook), fam_hist.rs / "
           "fam_api.rs (handlers called as trait methods, catch_unwind per operation)",
           "vp/inventory.py: textual scan for unwrap()/expect(/todo!/unimplemented!/panic!/unreachable!/assert!/indexing"]
ASSUMPTIONS = ["a request shape not in the catalogue and a panic inside a library that none of the shapes reaches are not covered",
               "test modules (#[cfg(test)], #[test]) are excluded from the inventory"]
EXHAUSTIVE = False
N_VARIANTS = 24
N_TEXTS = 28
TEXT_SLOT_1 = [0, 1, 2, 3, 5, 6, 7, 9, 10, 11, 12, 13, 15, 16, 17, 18, 19]
TEXT_SLOT_2 = [1, 2, 11, 12, 17, 19]


class Shapes:
    FAM = 18
    SHRINK = False
    CROSS_MAX = 0

    @staticmethod
    def generate(rng, tier):
        cases = []
        k = 0
        for rpc in range(22):
            for v in range(1, N_VARIANTS):
                cases.append(("r%d_%d" % (rpc, v), [[0, 0], [1, rpc, v, 10 + k % 100, 0], [3, 5000 + k]]))
                k += 1
        # text variants: 100+t puts text t (multi-byte characters straddling the length limits, see nasty()
        # in fam_shapes.rs) into the RPC's first text slot, 200+t into its second one
        for rpc in TEXT_SLOT_1:
            for t in range(N_TEXTS):
                for base in ([100, 200] if rpc in TEXT_SLOT_2 else [100]):
                    cases.append(("r%d_%d" % (rpc, base + t), [[0, 0], [1, rpc, base + t, 10 + k % 100, 0], [3, 5000 + k]]))
                    k += 1
        return cases

    @staticmethod
    def compare(lines, m, i):
        return True

    @staticmethod
    def monitor(lines, out):
        if not out or out == [[-99]]:
            return ["crash: the server process died or gave no output"]
        if out[0] == [-77]:
            return ["panic: the harness panicked"]
        code, pan = out[0][0], out[0][1] if len(out[0]) > 1 else 0
        if code == -2:
            return []
        fails = []
        if code == -88:
            fails.append("C18-silent: no answer within 5 s")
        if pan:
            fails.append("C18-panic: a handler panicked (%d panics so far)" % pan)
        if len(out) < 2 or out[1][:2] != [900, 1]:
            fails.append("C18-probe: after the request the broker no longer serves a write, its read-back and a metadata listing")
        elif out[1][2]:
            fails.append("C18-panic: a panic was recorded by the time of the probe")
        return fails

    @staticmethod
    def nontrivial(lines, out):
        if out and out[0][0] not in (-2, 0) and len(out) > 1 and out[1][:2] == [900, 1]:
            return (lines[1][1], lines[1][2])
        return None

    @staticmethod
    def histogram(lines, out):
        if not out or out[0][0] == -2:
            return []
        return ["%s -> %d" % (A.RPCS[lines[1][1]], out[0][0])]

    @staticmethod
    def pretty(lines):
        out = []
        for l in lines[1:]:
            if l[0] == 1:
                out.append("%s in structural variant %d (harness/src/fam_shapes.rs)" % (A.RPCS[l[1]], l[2]))
            elif l[0] == 3:
                out.append("probe: PublishValue, GetValue of it, ListMetadata")
        return out

    @staticmethod
    def neighbours(lines, rng):
        return []


class Handlers:
    """handler-level histories: the generator's absent / invalid parts, diffed against the model"""
    FAM = 1
    PROPS = {"C18"}

    @staticmethod
    def generate(rng, tier):
        n = 150 if tier == "quick" else 4000
        return [("a%d" % i, H.gen_history(rng, H.W_API, plain_meta=0.6)) for i in range(n)]

    @staticmethod
    def monitor(lines, out):
        return H.monitor(lines, out, Handlers.PROPS)

    nontrivial = staticmethod(B.nontrivial)
    pretty = staticmethod(B.pretty)

    @staticmethod
    def histogram(lines, out):
        return ["op:" + (H.OPN[l[0]] if 0 <= l[0] < len(H.OPN) else "?") for l in lines]

    @staticmethod
    def neighbours(lines, rng):
        return []


class VissReaders:
    """what gRPC clients wrote is read over the VISS socket (get, subscribe, events): handler-level writes carry
    client timestamps from the year 2001, the year 10000 and 9e12 s before / after the epoch, values of every type;
    every VISS request must be answered and nothing may panic.  (Whether the answers are the right ones is C20's
    subject: model and implementation are not compared here.)"""
    FAM = 20
    SHRINK = True
    CROSS_MAX = 0

    @staticmethod
    def generate(rng, tier):
        from .. import viss as VI
        n = 60 if tier == "quick" else 1500
        return [("v%d" % i, VI.gen_case(rng, open_mode=(i % 6 == 5))) for i in range(n)]

    @staticmethod
    def compare(lines, m, i):
        return True

    @staticmethod
    def monitor(lines, out):
        from .. import viss as VI
        fails = []
        if not out or out == [[-99]]:
            return ["C18-crash: the process died or gave no output"]
        for f in VI.monitor(lines, out):
            if f.startswith("C20-reply"):
                fails.append("C18-silent:" + f.split(":", 1)[1])
            elif f.startswith("panic"):
                fails.append("C18-panic:" + f.split(":", 1)[1])
        return fails

    @staticmethod
    def nontrivial(lines, out):
        return hash(tuple(map(tuple, lines)))

    @staticmethod
    def histogram(lines, out):
        from . import c20
        return ["viss:" + h for h in c20.histogram(lines, out) if h.startswith("V")]

    @staticmethod
    def pretty(lines):
        from .. import viss as VI
        return VI.pretty(lines)

    @staticmethod
    def neighbours(lines, rng):
        return []


PARTS = [Shapes, Handlers, Q12.FreeText, VissReaders]


def post(tier, seed):
    """the panic-site inventory"""
    new, gone, n = INV.compare()
    extra = {"inventory_sites_in_source": n, "inventory_new_sites": [list(x) for x in new], "inventory_gone": [list(x) for x in gone]}
    if new:
        rp = C.write_replay(PID, "inventory", {
            "property": PID, "kind": "correspondence",
            "broken": "K(C18): panic-capable constructs in the source that panic_inventory.json does not list; the "
                      "structural enumeration of this run found no request that makes a handler panic",
            "new_sites": [{"file": f, "function": fn, "line": l} for f, fn, l in new]})
        print("VIOLATION property=%s replay=%s no-failing-input-found" % (PID, rp))
        return 1, extra
    return 0, extra


def run(tier, seed, replay=None):
    from .. import runner
    me = sys.modules[__name__]
    try:
        return runner.run_property(me, tier, seed, replay)
    except C.CheckFailure as e:
        # the implementation binary died (stack overflow, abort): find the request that kills it
        rng = random.Random(seed)
        culprit = None
        for part in PARTS:
            for cid, lines in part.generate(rng, tier):
                try:
                    C.run_sharded(C.KDB_RUN, part.FAM, [(cid, lines)], PID + "_iso", shards=1)
                except C.CheckFailure as e2:
                    culprit = (part, cid, lines, str(e2)[-600:])
                    break
            if culprit:
                break
        if culprit:
            part, cid, lines, msg = culprit
            rp = C.write_replay(PID, "crash", {"property": PID, "kind": "monitor", "family": part.FAM, "case": lines,
                                               "readable": part.pretty(lines),
                                               "failed_clause": ["C18-crash: the process serving this request died: " + msg]})
            print("VIOLATION property=%s replay=%s" % (PID, rp))
        else:
            rp = C.write_replay(PID, "crash", {"property": PID, "kind": "correspondence", "broken": str(e)[-1500:]})
            print("VIOLATION property=%s replay=%s no-failing-input-found" % (PID, rp))
        C.write_evidence(PID, {"property_id": PID, "tier": tier, "seed": seed, "level": "proof",
                               "coverage": {"obligations": 0, "discharged": 0, "checker_cmd": "not reached",
                                            "trusted_base": TRUSTED, "evaluations": 0, "distinct_nontrivial": 0,
                                            "rule": RULE, "samples": [{"note": "the implementation binary died"}]},
                               "assumptions": ASSUMPTIONS, "wall_s": 0, "violations": 1})
        return 1

"""C19 — failures are reported with the status class documented for their cause."""
from .. import hist as H
from . import c01 as B

PID = "C19"
FAM = 1
ALLOWED_AXIOMS = {"Classical_Prop.classic", "ClassicalDedekindReals.sig_not_dec",
                  "ClassicalDedekindReals.sig_forall_dec",
                  "FunctionalExtensionality.functional_extensionality_dep"}
PROPS = {"C19"}
MANIFEST = {
    "text": "Coq theorems: an independent, declarative analysis lists the causes that apply to a request in a state (unknown signal, expired token, missing scope, invalid value / pattern / missing field, no live provider, already claimed); for reads, every element of every write path, actuation and the kuksa.val.v2 GetValue / PublishValue handlers it is proved that a reported failure carries the class of one of the applicable causes and that a request to which no cause applies is served; all vocabularies (gRPC code, v1 numeric code, sdv DatapointError) map an internal error to the same class (sdv and v2 in-stream codes have no 'unauthenticated' member: access-denied stands for both, as their .proto documents). Tied to the code by handler-level and in-process histories rich in single- and multi-cause failures (unknown ids/paths, absent fields, over-long paths, foreign scopes, tokens expiring mid-history, invalid values, missing / lost / expired providers, overlapping claims), diffed against the real handlers with exact codes; an independent Python cause oracle judges every reported status of the implementation. Also: claims (c19_claim_already_exists: ALREADY_EXISTS only if some named actuator has a registered owner; c19_claim_served); not_found in a Set / StreamedUpdate reply only for a path that names no registered signal; the client-stream scenarios.",
    "note": "Trusted: Coq kernel; stdlib axioms via Flocq (validate); extraction + OCaml driver; harness/src/fam_api.rs. The handler theorems cover v2 GetValue/PublishValue and the core operations every other handler maps its errors from; the remaining handlers' status mapping is covered by the exact-code correspondence and the cause oracle. A provider whose token expired is reported to the actuating caller as UNAUTHENTICATED (the code's choice, accepted by C10's wording).",
}
RULE = ("handler-level and in-process histories (weights W_API) with 2-4 principals incl. expiring tokens; every "
        "operation's status / per-element codes are compared exactly with the model and judged by the cause oracle; "
        "non-trivial = history with at least one accepted and one rejected update element; distinct = distinct "
        "operation sequences")
TRUSTED = B.TRUSTED
ASSUMPTIONS = ["when the oracle cannot decide a cause (lone '*' scope, undecidable cross-kind bound) the element is skipped"]
N_QUICK, N_THOROUGH = 250, 6000


def generate(rng, tier, n=None, **kw):
    n = n or (N_QUICK if tier == "quick" else N_THOROUGH)
    out = []
    for i in range(n):
        w = H.W_API if i % 3 else H.W_MIX
        out.append(("h%d" % i, H.gen_history(rng, w)))
    # routing scenarios (vp/props/c09.py): batches over several providers with lost / unowned / unknown targets,
    # duplicates and ill-typed values in every position - each answered with one status whose class is judged
    from . import c09
    out += [("route%d" % i, c09.routing_scenario(rng)) for i in range(50 if tier == "quick" else 1000)]
    # the client streams (kuksa.val.v1 StreamedUpdate, sdv StreamDatapoints) incl. a signal registered while the
    # streams are open
    out += [("cs%d" % i, H.client_stream_scenario(rng)) for i in range(40 if tier == "quick" else 800)]
    return out


def monitor(lines, out):
    return H.monitor(lines, out, PROPS)


nontrivial = B.nontrivial
histogram = B.histogram
pretty = B.pretty
neighbours = B.neighbours

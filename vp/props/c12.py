"""C12 — query subscriptions (query family: generated queries x update histories; free-text part)."""
from .. import query as Q
from .. import hist as H

PID = "C12"
ALLOWED_AXIOMS = {"Classical_Prop.classic", "ClassicalDedekindReals.sig_not_dec",
                  "ClassicalDedekindReals.sig_forall_dec",
                  "FunctionalExtensionality.functional_extensionality_dep"}
MANIFEST = {
    "text": "Coq model of the query compiler and executor (Model/Query.v: literal typing after the compared operand incl. the i64/u64/f64 cascade and correctly rounded decimal literals via Flocq, type checks, BETWEEN / NOT BETWEEN, LAG, projection names) and of query subscriptions on the broker core (Model/QueryRun.v: trigger, values visible to the subscriber, LAG bookkeeping, housekeeping). Theorems: every accepted query is well-typed and fully resolved; constructs outside the subset, wildcards, ignored clauses and unknown signals are refused; the executor's verdict on a condition agrees with its SQL reading over the exact numbers (C13's comparison theorems lifted through AND/OR/NOT/BETWEEN; exact when no float equality is involved, within the broker's float tolerance otherwise); a response goes out exactly when a referenced signal's datapoint changed and the condition holds, with one field per selected expression under its alias / signal name / field_i; the query sees only what its subscriber may read; LAG reads the datapoint before the change. Tied to the code on every run: generated queries (syntax tree + SQL text) x update histories run against the real subscribe_query / update_entries and the extracted model, every response diffed; an independent three-valued (SQL NULL for comparisons with a signal that has no value) reference evaluator over exact rationals judges the implementation's own trace; free-text queries must be answered without panic. Also: subscriptions opened through sdv Broker::Subscribe (responses compared as maps); a subquery used as an operand is refused (c12_subquery_operand_refused; finding F29, fixed); cross-type signal comparisons at 2^24 / 2^53 / 2^63 with answered declinable comparisons judged against the exact truth value; the LAG catch-up rule of doc/QUERY.md in the reference oracle.",
    "note": "Trusted: Coq kernel; Flocq's 4 standard-library axioms (Print Assumptions); extraction + OCaml driver (vm_compute cross-check each run); harness/src/fam_hist.rs; vp/query.py (printer, reference evaluator). Modelled, not verified: SQL text -> syntax tree is sqlparser's (the generator emits both; the pair is validated only by the correspondence); Rust's str::parse::<f32/f64> is assumed correctly rounded and is modelled only for digits[.digits] literals in Clinger's exact class (others are not generated); subqueries (undocumented extension) are not modelled; the bounded mpsc channel of a query subscription (capacity 10, send awaits) is drained after every operation - a subscriber that stops reading blocks writers, see DESIGN.md.",
}
RULE = ("seeded cases: 4-9 registered signals over every scalar data type (plus one array), 1-3 principals (some "
        "read-restricted, some expiring), 10-40 operations: query subscriptions (generated syntax trees, about 80% "
        "well-typed: comparisons of signals / LAG(signal) with literals typed after them (range boundaries, decimals), "
        "with other signals of any numeric type, AND/OR/NOT/BETWEEN/NOT BETWEEN nested to depth 3, boolean signals, "
        "aliases, conditions in the projection; the rest ill-typed, outside the subset, unknown names, ignored "
        "clauses), update batches with values from pools around the literals (boundaries, -0.0, NaN, inf), "
        "subscriber drop, housekeeping, token expiry; second part: free-text queries from an SQL token soup and "
        "random characters (no model comparison: must answer, must not panic); non-trivial = a case with an "
        "accepted query and at least one response after an update; distinct = distinct operation sequences")
TRUSTED = ["extraction: ExtrOcamlBasic only; driver ocaml/model_run.ml",
           "correspondence harness: harness/src/fam_hist.rs (real DataBroker::subscribe_query / update_entries)",
           "python: vp/query.py (SQL printer, reference evaluator over exact rationals), vp/hist.py (permission oracle)"]
ASSUMPTIONS = ["SQL text -> syntax tree is sqlparser's; the generator prints fully parenthesised text for the tree it encodes",
               "the reference evaluator does not judge rounds whose condition depends on a float equality inside the "
               "tolerance band, NaN/inf arithmetic, NotAvailable operands, a 64-bit integer beyond 32 bits against a "
               "float (declined, C13), or LAG of a signal that did not change in that round",
               "query subscribers are drained after every operation (a full channel would block the writer)"]
N_QUICK, N_THOROUGH = 300, 8000


class Main:
    FAM = 16

    @staticmethod
    def generate(rng, tier, n=None):
        n = n or (N_QUICK if tier == "quick" else N_THOROUGH)
        return [("q%d" % i, Q.gen_case(rng)) for i in range(n)] + \
               [("x%d" % i, Q.cross_case(rng)) for i in range(n // 4)]

    @staticmethod
    def monitor(lines, out):
        return Q.monitor(lines, out)

    @staticmethod
    def compare(lines, m, i):
        # responses of subscriptions opened through the sdv handler are maps: compared sorted by name
        if m and [1, 99] in m:
            # a float literal outside the class Model/FloatLit.v covers: the model says so (99) and the case is left
            # to the reference oracle
            return True
        c = lambda o: Q.canon_subquery_refusal(lines, Q.canon_sdv(lines, o or []))
        return c(m) == c(i)

    @staticmethod
    def nontrivial(lines, out):
        al = Q.split_outputs(lines, out)
        if al is None:
            return None
        acc = resp = False
        for d, o in al:
            if d["name"] == "SUBQ" and o and o[0][:1] == [0]:
                acc = True
            if d["name"] == "UPDATE" and len(o) > 1:
                resp = True
        return hash(tuple(map(tuple, lines))) if acc and resp else None

    @staticmethod
    def histogram(lines, out):
        h = []
        al = Q.split_outputs(lines, out)
        if al is None:
            return ["unaligned"]
        for d, o in al:
            h.append("op:" + d["name"])
            if d["name"] == "SUBQ":
                h.append("subq:" + ("accepted" if o[0][:1] == [0] else "refused-kind-%d" % (o[0][1] if len(o[0]) > 1 else -1)))
            if d["name"] == "UPDATE":
                h.append("responses-per-update:%d" % (len(o) - 1))
        return h

    @staticmethod
    def pretty(lines):
        return Q.pretty(lines)

    @staticmethod
    def neighbours(lines, rng):
        return []


class FreeText(Main):
    """arbitrary strings: the model has no syntax tree for them, so only the implementation is judged"""
    SHRINK = True
    CROSS_MAX = 2

    @staticmethod
    def generate(rng, tier, n=None):
        n = n or (60 if tier == "quick" else 1500)
        return [("g%d" % i, Q.gen_garbage_case(rng)) for i in range(n)]

    @staticmethod
    def compare(lines, m, i):
        return True

    @staticmethod
    def nontrivial(lines, out):
        return hash(tuple(map(tuple, lines)))

    @staticmethod
    def histogram(lines, out):
        al = Q.split_outputs(lines, out)
        if al is None:
            return ["free-text:unaligned"]
        return ["free-text:" + ("accepted" if o[0][:1] == [0] else "refused") for d, o in al if d["name"] == "SUBQ"]


PARTS = [Main, FreeText]


def extra_evidence(tier):
    return {"reference_evaluator": dict(Q.STATS)}

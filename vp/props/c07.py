"""C07 — history family, profile W_SUBS (see vp/hist.py and vp/props/c01.py)."""
from .. import hist as H
from . import c01 as B

PID = "C07"
FAM = 1
ALLOWED_AXIOMS = {"Classical_Prop.classic", "ClassicalDedekindReals.sig_not_dec",
                  "ClassicalDedekindReals.sig_forall_dec",
                  "FunctionalExtensionality.functional_extensionality_dep"}
MANIFEST = {
    "text": 'Coq theorems over the broker model: one update request gives a subscriber at most one message, non-empty, with exactly the changed-and-subscribed fields and the committed values; nothing watched (rejected, foreign, repeated on-change) means no message; a lagging reader gets the oldest retained message, never older than its position, among the newest cap >= buffer_size+1; a subscription is unregistered only when its receiver is gone or its token expired (or at shutdown). Tied to the code by histories with subscribe (every buffer-size class), eager/lazy/never readers, stream drops, housekeeping (hook H3) and shutdown, comparing whole message sequences. Second part: the same through the gRPC handlers - kuksa.val.v1 Subscribe (leaf / branch path, field set) and kuksa.val.v2 Subscribe / SubscribeById (every buffer_size class) called as trait methods, their proto streams read back into the core message form, modelled by Api.v1_subscribe / Api.v2_subscribe (theorems c07_v2_subscribe_is_core, c07_refused_handler_subscription_no_effect) and judged by the same clauses. Third part: change subscriptions opened over the VISS websocket, judged by the same clauses. Theorem c07_v1_multi_entry_union: a signal selected by several entries of one kuksa.val.v1 Subscribe request is subscribed with the union of their fields.',
    "note": "Trusted: Coq kernel; the 4 standard-library axioms that enter through Flocq (used by validate's float comparisons) as printed by Print Assumptions; extraction + OCaml driver (vm_compute cross-check each run); harness/src/fam_hist.rs and hook H3 (verif_housekeeping_step); the Python monitors. Modelled, not verified: tokio broadcast (ring with capacity rounded up to a power of two, Lagged skipping) and RwLock, HashMap iteration order (outputs are sorted), the gRPC handlers on top of AuthorizedAccess (exercised by the handler-level checks), SystemTime (a timestamp is canonicalised to the operation during which it was taken; expiry is crossed in real time at a TICK).",
}
PROPS = set("C07,C03".split(","))
WEIGHTS = H.W_SUBS
RULE = B.RULE
TRUSTED = B.TRUSTED
ASSUMPTIONS = B.ASSUMPTIONS


def generate(rng, tier, n=None, **kw):
    return B.generate(rng, tier, weights=WEIGHTS, n=n, **GEN_KW)


GEN_KW = {}


def monitor(lines, out):
    return H.monitor(lines, out, PROPS)


nontrivial = B.nontrivial
histogram = B.histogram
pretty = B.pretty
neighbours = B.neighbours


class Core:
    """subscriptions through the in-process API"""
    FAM = 1
    generate = staticmethod(generate)
    monitor = staticmethod(monitor)
    nontrivial = staticmethod(nontrivial)
    histogram = staticmethod(histogram)
    pretty = staticmethod(pretty)
    neighbours = staticmethod(neighbours)


class HandlerSubs:
    """subscriptions through the gRPC handlers (kuksa.val.v1 Subscribe by leaf / branch path and field set,
    kuksa.val.v2 Subscribe by paths and SubscribeById with every buffer_size class), among writes through every
    API; the proto stream is read back into the core's message form and the same clauses judge it"""
    FAM = 1

    @staticmethod
    def generate(rng, tier):
        n = 150 if tier == "quick" else 4000
        return [("hs%d" % i, H.gen_history(rng, H.W_APISUB, plain_meta=0.6)) for i in range(n)]

    @staticmethod
    def compare(lines, m, i):
        # over kuksa.val.v1 a datapoint without a value is absent (and its timestamp with it); which of several
        # failing entries of one v1 Subscribe is reported is not determined
        return H.same_handler_subs(lines, m, i)

    monitor = staticmethod(monitor)
    pretty = staticmethod(pretty)
    neighbours = staticmethod(neighbours)

    @staticmethod
    def nontrivial(lines, out):
        al = H.split_outputs(lines, out)
        if al is None:
            return None
        ok = any(d["op"] in (H.V1SUB, H.V2SUB) and o and o[0][:1] == [0] for d, o in al)
        got = any(d["name"] == "RECV" and len(o) > 1 for d, o in al)
        return hash(tuple(map(tuple, lines))) if ok and got else None

    @staticmethod
    def histogram(lines, out):
        al = H.split_outputs(lines, out)
        h = ["op:" + (H.OPN[l[0]] if 0 <= l[0] < len(H.OPN) else "?") for l in lines]
        if al:
            for d, o in al:
                if d["op"] in (H.V1SUB, H.V2SUB) and o:
                    h.append("%s -> %s" % (d["name"], "ok" if o[0][:1] == [0] else "status %s" % o[0][1:2]))
        return h


class VissSubs:
    """change subscriptions opened over the VISS websocket among writes through every API: the events a VISS subscriber receives are rewritten into the core's messages and judged by the same C07 clauses (one event per committed change of the subscribed signal, every write of a continuous signal, none for rejected or repeated on-change writes)"""
    FAM = 20
    CROSS_MAX = 0

    @staticmethod
    def generate(rng, tier):
        from .. import viss as VI
        n = 60 if tier == "quick" else 1500
        return [("vs%d" % i, VI.gen_case(rng, open_mode=(i % 6 == 5))) for i in range(n)]

    @staticmethod
    def compare(lines, m, i):
        from . import c20
        return c20.compare(lines, m, i)

    @staticmethod
    def monitor(lines, out):
        from .. import viss as VI
        return [f for f in VI.monitor(lines, out) if f.startswith(("C20-events", "C20-shared(C07", "C20-unsubscribe"))]

    @staticmethod
    def nontrivial(lines, out):
        return hash(tuple(map(tuple, lines)))

    @staticmethod
    def histogram(lines, out):
        from . import c20
        return ["viss:" + h for h in c20.histogram(lines, out) if h.startswith("V")]

    @staticmethod
    def pretty(lines):
        from .. import viss as VI
        return VI.pretty(lines)

    @staticmethod
    def neighbours(lines, rng):
        return []


PARTS = [Core, HandlerSubs, VissSubs]

"""C07 — history family, profile W_SUBS (see vp/hist.py and vp/props/c01.py)."""
from .. import hist as H
from . import c01 as B

PID = "C07"
FAM = 1
ALLOWED_AXIOMS = {"Classical_Prop.classic", "ClassicalDedekindReals.sig_not_dec",
                  "ClassicalDedekindReals.sig_forall_dec",
                  "FunctionalExtensionality.functional_extensionality_dep"}
MANIFEST = {
    "text": 'Coq theorems over the broker model: one update request gives a subscriber at most one message, non-empty, with exactly the changed-and-subscribed fields and the committed values; nothing watched (rejected, foreign, repeated on-change) means no message; a lagging reader gets the oldest retained message, never older than its position, among the newest cap >= buffer_size+1; a subscription is unregistered only when its receiver is gone or its token expired (or at shutdown). Tied to the code by histories with subscribe (every buffer-size class), eager/lazy/never readers, stream drops, housekeeping (hook H3) and shutdown, comparing whole message sequences.',
    "note": "Trusted: Coq kernel; the 4 standard-library axioms that enter through Flocq (used by validate's float comparisons) as printed by Print Assumptions; extraction + OCaml driver (vm_compute cross-check each run); harness/src/fam_hist.rs and hook H3 (verif_housekeeping_step); the Python monitors. Modelled, not verified: tokio broadcast (ring with capacity rounded up to a power of two, Lagged skipping) and RwLock, HashMap iteration order (outputs are sorted), the gRPC handlers on top of AuthorizedAccess (exercised by the handler-level checks), SystemTime (a timestamp is canonicalised to the operation during which it was taken; expiry is crossed in real time at a TICK).",
}
PROPS = set("C07,C03".split(","))
WEIGHTS = H.W_SUBS
RULE = B.RULE
TRUSTED = B.TRUSTED
ASSUMPTIONS = B.ASSUMPTIONS


def generate(rng, tier, n=None, **kw):
    return B.generate(rng, tier, weights=WEIGHTS, n=n, **GEN_KW)


GEN_KW = {}


def monitor(lines, out):
    return H.monitor(lines, out, PROPS)


nontrivial = B.nontrivial
histogram = B.histogram
pretty = B.pretty
neighbours = B.neighbours

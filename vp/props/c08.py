"""C08 — subscribers converge to the stored value under every interleaving."""
from .. import common as C
from .. import conc, concprop

PID = "C08"
FAM = 12
ALLOWED_AXIOMS = set()
KINDS = {2, 3}
THEOREMS = ["c08_converge", "c08_same_order", "c08_commit_order"]
MANIFEST = {
    "text": "Coq theorems over a concurrent model (Model/ConcSub.v) in which any number of publishers (update_entries), subscribers (subscribe) and housekeeping runs execute the lock programs of the code, each Act being the critical-section body of broker.rs at that position, under EVERY interleaving at lock-acquisition granularity and every grant order of the locks (a superset of tokio's FIFO order): once every call has returned the last value each live subscriber was sent is the stored value; what a subscriber was sent after its snapshot is a suffix of one global notification sequence, which equals the store's commit order when idle; at most one change is ever applied-but-not-yet-notified. The proof is an inductive invariant (holders of the database lock as a function of program counters, writer exclusivity, snapshot freshness while the read guard is held, last-sent = stored unless a publisher is between apply and notify). Tie to the code: the three lock programs are compared with traces recorded from the instrumented real operations on every run, every lock site is inventoried, and a scheduler polling the REAL futures explores the interleavings of 1-2 subscribers, 1-3 publishers, a query subscriber, subscribers (change and query) that register and go away, and housekeeping (exhaustive DFS within a budget, seeded random beyond) checking stale-subscriber and order predicates.",
    "note": "Trusted: Coq kernel (axiom-free); hooks H1-H3 and the manual-poll executor; that the code between two lock events touches only data guarded by the locks held (Rust's guards) so that each Act is atomic; one signal and Int32 values in the model (the argument is per signal); query subscriptions take part only in the schedule search, not in the theorem. The schedule search is a counterexample search, not the proof.",
    "technique": "machine-checked proof in Coq (inductive invariant over all interleavings) + lock-trace correspondence + schedule search on the real futures",
}
RULE = ("schedule search on the real futures: task sets of 1-2 subscribers, 1-3 publishers writing distinct values, "
        "a query subscriber and a housekeeping run; stateless DFS up to a budget plus seeded random schedules; after "
        "each complete schedule every subscriber stream is drained and compared with the stored value and with the "
        "other subscribers' sequences; lock traces of 19 operation variants compared with the model; non-trivial = "
        "distinct schedule")
TRUSTED = ["hooks H1-H3 in /repo (feature verif-hooks)", "harness/src/fam_conc.rs (manual-poll executor)",
           "extraction: ExtrOcamlBasic only; driver ocaml/model_run.ml"]
ASSUMPTIONS = ["each critical section between lock events is atomic (data guarded by the held locks)",
               "subscribers use a buffer large enough not to lag in the schedule search (lag is C07's subject)"]


def run(tier, seed, replay=None):
    import sys
    return concprop.run_conc_property(sys.modules[__name__], "C08", tier, seed, replay)

"""VISS family (C20): histories that issue reads, target writes and subscriptions alternately over the
VISS v2 websocket and over the gRPC handlers / the core API against one broker; text values of every
kind (valid, out of range, wrong kind, malformed numerals); an oracle that rewrites the VISS
operations into the equivalent core operations for the shared monitors and adds the VISS clauses.
Operation lines: coq/Model/Viss.v."""
import struct
from . import enc as E
from . import hist as H
from .props import c02 as V

VGET, VSET, VSUB, VUNSUB, VRECV, VRAW, VMETA = 50, 51, 52, 53, 54, 55, 56
INT_TEXTS = ["0", "1", "5", "10", "-1", "-10", "127", "128", "-128", "-129", "255", "256", "32767", "32768", "65535",
             "65536", "2147483647", "2147483648", "-2147483648", "4294967295", "4294967296", "9223372036854775807",
             "9223372036854775808", "18446744073709551615", "18446744073709551616", "+5", "-0", "007",
             # numerals whose low 8 / 16 / 32 bits are small: a narrowing cast instead of a range check accepts them
             "4294967338", "4294967301", "-4294967291", "8589934592", "4294967423", "65541", "261", "-251",
             "18446744073709551621", "-18446744073709551611"]
BAD_NUM_TEXTS = ["", " 5", "5 ", "5.0", "1e3", "0x10", "1_000", "--5", "+-5", "abc", "5a", "٣", "1,5", "-", "+", "true"]
FLOAT_TEXTS = ["0", "0.0", "-0.0", "1.5", "-2.25", "10", "10.0", "-10.0", "12.5", "100", "0.1", "9.5", "+3", "11", "-11", ".5", "7."]
BAD_FLOAT_TEXTS = ["", "abc", "1.5.2", "1,5", " 1.5", "--1", "0x1p3"]
RANGE = {2: (-128, 127), 3: (-32768, 32767), 4: (-2**31, 2**31 - 1), 5: (-2**63, 2**63 - 1),
         6: (0, 255), 7: (0, 65535), 8: (0, 2**32 - 1), 9: (0, 2**64 - 1)}
PARSE_RANGE = {2: 4, 3: 4, 4: 4, 5: 5, 6: 8, 7: 8, 8: 8, 9: 9}     # int8 / int16 texts are parsed as i32, etc.
KIND = {0: E.STR, 1: E.BOOL, 2: E.I32, 3: E.I32, 4: E.I32, 5: E.I64, 6: E.U32, 7: E.U32, 8: E.U32, 9: E.U64, 10: E.F32, 11: E.F64}
RAW_TEXTS = ['{"action":"get","requestId":"q1"}', '{"action":"fly","requestId":"q2","path":"Vehicle.Speed"}',
             '{"action":"set","requestId":"q3","path":"Vehicle.Speed","value":5}',
             '{"action":"set","requestId":"q4","path":"Vehicle.Speed"}', '{"requestId":"q5"}',
             '{"action":"get","path":"Vehicle.Speed","requestId":7}', '{"action":"get","path":"Vehicle.Speed"}',
             '[1,2,3]', 'null', '', 'not json', '{"action":"get","path":5,"requestId":"q6"}',
             '{"action":"subscribe","requestId":"q7","path":["a"]}', '{"action":"unsubscribe","requestId":"q8"}',
             '{"action":"get","requestId":"q9","path":"Vehicle.Speed","filter":{"type":"static-metadata"}}',
             '{"action":"get","requestId":"q10","path":"Vehicle.Speed","filter":{"type":"paths","parameter":"*"}}',
             '{"action":"get","requestId":"q11","path":"' + "A" * 5000 + '"}', '{"a":' * 200 + '1' + '}' * 200,
             '{"action":"get","requestId":"q12","path":"Vehicle.Speed","authorization":5}',
             '{"action":"set","requestId":"q13","path":"Vehicle.Speed","value":{"a":1}}',
             '{"action":"get","requestId":"q\u0000","path":"x"}']
def long_frames():
    """frames longer than the usual buffer / log limits (1 KiB ... 8 KiB) made of multi-byte characters, in every
    alignment: whatever the server does with the text of a request or of its own reply (truncate, abbreviate, log)
    must not depend on where a character happens to end"""
    out = []
    for ch in ("\u00e4", "\u20ac", "\U0001F600"):
        w = len(ch.encode("utf-8"))
        for shift in range(w):
            rid = "n" + "x" * shift
            out.append('{"action":"get","requestId":"%s","path":"%s"}' % (rid, ch * (9000 // w)))
        out.append('{"action":"set","requestId":"m%d","path":"Vehicle.Speed","value":"%s"}' % (w, ch * (3000 // w)))
    return out


RAW_TEXTS += long_frames()
LONG_TEXTS = ["\u00e4" * 700, "\u20ac" * 500, "x" + "\u00e4" * 700, "\U0001F600" * 300, "xy" + "\u20ac" * 500, "a" * 1023 + "\u00e4\u00e4"]
W_VISS = {"vlong": 0.6, "vmeta": 1.5, "vraw": 1.5, "vget": 5, "vset": 6, "vsub": 2, "vrecv": 3, "vunsub": 0.7, "update": 5, "v2pub": 2, "v2get": 2, "v1get": 1,
          "v1set": 1.5, "get": 1, "cleanup": 0.3}
REASON = {1: "bad_request", 2: "token_expired", 3: "token_invalid", 4: "token_missing", 5: "read_only", 6: "user_forbidden",
          7: "invalid_path", 8: "invalid_subscription_id", 9: "internal_server_error"}


def text_tokens(x):
    if x is None:
        return [0]
    if isinstance(x, str):
        return [1] + E.s(x)
    return [2, len(x)] + sum((E.s(t) for t in x), [])


def value_text(v):
    """a text a client would send for the typed value v (scalars and arrays)"""
    k, p = v
    one = lambda kk, x: ("true" if x else "false") if kk == E.BOOL else x if kk == E.STR else \
        repr(E.bits_f32(x)) if kk == E.F32 else repr(E.bits_f64(x)) if kk == E.F64 else str(x)
    if k in V.SCALAR_OF:
        return [one(V.SCALAR_OF[k], x) for x in p]
    return one(k, p)


class VGen(H.Gen):
    def __init__(self, rng, open_mode=False):
        super().__init__(rng, W_VISS, nsig=(4, 8), allow_expiry=False, plain_meta=0.55)
        self.vsubs = 0
        self.slash = []
        self.open_mode = open_mode

    def setup(self):
        super().setup()
        # make most signals actuators so that target writes are meaningful: re-declare entry types in place
        r = self.rng
        L = self.lines
        for i, l in enumerate(L):
            if l[0] == H.ADD and r.random() < 0.65:
                n = l[2]
                l[3 + n + 2] = 2                     # entry type: actuator
        self.sigs = [(s[0], s[1], s[2], 2 if L_is_act(L, s[1]) else s[3], s[4]) for s in self.sigs]
        if r.random() < 0.4:
            # a signal whose NAME contains a slash (legal in a path segment) beside the signal a slash-to-dot rewriting
            # of the request path would hit instead
            for nm in ("Vehicle.Test.Km/h", "Vehicle.Test.Km.h"):
                t = r.choice([4, 4, 8, 1])
                L.append([H.ADD, 0] + E.s(nm) + [t, r.randrange(3), 2, 0, 0, 0])
                # known to the VISS operations only: as a PATTERN of the gRPC Get / Subscribe / ListMetadata requests a
                # name with a slash is outside what Model/Glob.v translates (the glob form uses `/` as its separator)
                self.slash.append((len(self.sigs) + len(self.slash), nm, t, 2, (None, None, None)))
            L.append([H.DUMP])

    def tok(self):
        if self.open_mode:
            # the server runs with authorization disabled: whatever is presented (often nothing) is served
            r = self.rng
            c = r.random()
            return [3] + ([0] if c < 0.5 else [2] if c < 0.65 else self.tok_plain())
        return self.tok_plain()

    def tok_plain(self):
        r = self.rng
        c = r.random()
        if c < 0.08:
            return [0]
        if c < 0.14:
            return [2]
        return [1, self.who()]

    def path(self):
        r = self.rng
        if self.slash and r.random() < 0.25:
            return r.choice(self.slash)[1]
        if self.sigs and r.random() < 0.92:
            return r.choice(self.sigs)[1]
        return r.choice(["Vehicle.Unknown", "", "Vehicle", "Vehicle.*", "Vehicle..Speed"])

    def text_for(self, sig):
        r = self.rng
        _id, path, t, et, meta = sig
        base = t - 12 if t >= 12 else t
        arr = t >= 12
        c = r.random()
        if c < 0.55:
            v = E.dec_val(self.value_for(sig, 0.8))[0]
            if v[0] in (E.F32, E.F64, E.F32A, E.F64A) or v[0] == E.NA:
                x = r.choice(FLOAT_TEXTS) if base in (10, 11) else r.choice(INT_TEXTS[:8])
                return [x] * r.randrange(0, 3) if arr else x
            if KIND.get(base) is not None and (v[0] == KIND[base] or (arr and v[0] == V.ARR[KIND[base]])):
                return value_text(v)
        one = lambda: (r.choice(INT_TEXTS + BAD_NUM_TEXTS) if base in RANGE else
                       r.choice(FLOAT_TEXTS + BAD_FLOAT_TEXTS + ["5"]) if base in (10, 11) else
                       r.choice(["true", "false", "True", "1", "", "yes"]) if base == 1 else
                       r.choice(["", "a", "abc", "ABC", "5", "true", "é x"]))
        c = r.random()
        if c < 0.08:
            return None
        if arr:
            return one() if c < 0.2 else [one() for _ in range(r.randrange(0, 4))]
        return [one()] if c < 0.2 else one()

    def op(self):
        r = self.rng
        kinds = list(self.w.keys())
        k = r.choices(kinds, [self.w[x] for x in kinds])[0]
        L = self.lines
        if k == "vget":
            L.append([VGET] + self.tok() + E.s(self.path()))
        elif k == "vset":
            sig = r.choice(self.slash) if self.slash and r.random() < 0.2 else \
                r.choice(self.sigs) if self.sigs and r.random() < 0.95 else None
            path = sig[1] if sig else self.path()
            x = self.text_for(sig) if sig else "5"
            L.append([VSET] + self.tok() + E.s(path) + text_tokens(x))
            L.append([H.DUMP])
        elif k == "vsub":
            L.append([VSUB] + self.tok() + E.s(self.path()))
            self.vsubs += 1
        elif k == "vrecv" and self.vsubs:
            L.append([VRECV, r.randrange(self.vsubs), r.choice([1, 2, 50])])
        elif k == "vraw":
            L.append([VRAW] + E.s(r.choice(RAW_TEXTS)))
        elif k == "vlong":
            # a long non-ASCII string stored through the core, then read over VISS: the REPLY is the long text
            strs = [s_ for s_ in self.sigs if s_[2] == 0 and s_[4] == (None, None, None)]
            if strs:
                s_ = r.choice(strs)
                L.append([H.UPDATE, 0, 1, s_[0], 1] + E.val(E.STR, r.choice(LONG_TEXTS)))
                L.append([H.DUMP])
                L.append([VGET] + ([3, 0] if self.open_mode else [1, 0]) + E.s(s_[1]))
                L.append([VSUB] + ([3, 0] if self.open_mode else [1, 0]) + E.s(s_[1]))
                self.vsubs += 1
                L.append([H.UPDATE, 0, 1, s_[0], 1] + E.val(E.STR, r.choice(LONG_TEXTS)))
                L.append([H.DUMP])
                L.append([VRECV, self.vsubs - 1, 50])
        elif k == "vmeta":
            # static metadata: everything, a branch, a signal, a name that is the beginning of other names, unknown
            leaves = [s_[1] for s_ in self.sigs]
            branches = sorted({".".join(x.split(".")[:n]) for x in leaves for n in range(1, x.count(".") + 1)})
            c = r.random()
            path = ("" if c < 0.15 else r.choice(branches) if c < 0.5 and branches else r.choice(leaves) if c < 0.8 and leaves
                    else r.choice(["Vehicle.Spee", "Vehicle.Speed", "Vehicle.Cabin.Door.Row", "Veh", "Nope", "Vehicle.", "vehicle"]))
            L.append([VMETA] + E.s(path))
        elif k == "vunsub" and self.vsubs:
            L.append([VUNSUB, r.randrange(self.vsubs + (1 if r.random() < 0.2 else 0))])
        elif k in ("update", "get", "cleanup") or k in H.API_KINDS:
            w, self.w = self.w, {k: 1}
            try:
                super().op()
            finally:
                self.w = w
        else:
            L.append([H.GET, 0, self.any_id()])


def L_is_act(L, path):
    for l in L:
        if l[0] == H.ADD:
            n = l[2]
            if bytes(l[3:3 + n]).decode("utf-8", "replace") == path:
                return l[3 + n + 2] == 2
    return False


def gen_case(rng, length=(10, 40), open_mode=False):
    g = VGen(rng, open_mode)
    g.setup()
    for _ in range(rng.randrange(*length)):
        g.op()
    for h in range(g.vsubs):
        g.lines.append([VRECV, h, 2000])
    g.lines.append([H.DUMP])
    return g.lines


# ---------------------------------------------------------------- parsing
def _str(l, i):
    n = l[i]
    return bytes(l[i + 1:i + 1 + n]).decode("utf-8", "replace"), i + 1 + n


def _tok(l, i):
    if l[i] == 3:
        t, j = _tok(l, i + 1)
        return ("open", t), j
    if l[i] == 1:
        return ("p", l[i + 1]), i + 2
    return (("none",) if l[i] == 0 else ("bad",)), i + 1


def tok_name(t):
    if t is None:
        return ""
    if t[0] == "open":
        return " [authorization disabled;%s]" % (tok_name(t[1]).strip(" []") or "?")
    return " [p%d]" % t[1] if t[0] == "p" else " [no token]" if t[0] == "none" else " [bad token]"


def parse_viss(l):
    op = l[0]
    d = {"op": op, "name": {50: "VGET", 51: "VSET", 52: "VSUB", 53: "VUNSUB", 54: "VRECV", 55: "VRAW", 56: "VMETA"}[op]}
    if op == VRAW:
        d["text"], _ = _str(l, 1)
        return d
    if op == VMETA:
        d["path"], _ = _str(l, 1)
        return d
    if op in (VGET, VSET, VSUB):
        d["tok"], i = _tok(l, 1)
        d["path"], i = _str(l, i)
        if op == VSET:
            if l[i] == 0:
                d["text"] = None
            elif l[i] == 1:
                d["text"], i = _str(l, i + 1)
            else:
                n = l[i + 1]
                i += 2
                xs = []
                for _ in range(n):
                    x, i = _str(l, i)
                    xs.append(x)
                d["text"] = xs
    elif op == VUNSUB:
        d["h"] = l[1]
    else:
        d["h"], d["k"] = l[1], l[2]
    return d


def split(lines, out):
    """-> [(line, parsed op or None for a non-VISS line, [output lines])] or None"""
    res = []
    i = 0
    for l in lines:
        if i >= len(out):
            return None
        if 50 <= l[0] <= 56:
            d = parse_viss(l)
            if l[0] == VMETA and len(out[i]) == 2 and out[i][0] == 0:
                n = out[i][1]
                if i + 1 + n > len(out) or any(x[:1] != [205] for x in out[i + 1:i + 1 + n]):
                    return None
                res.append((l, d, out[i:i + 1 + n]))
                i += 1 + n
            elif l[0] == VRECV and out[i] not in ([-1], [-77], [-88]):
                j = i
                while j < len(out) and out[j][0] in (120, 121, -5):
                    j += 1
                if j >= len(out) or out[j][0] != 101:
                    return None
                res.append((l, d, out[i:j + 1]))
                i = j + 1
            else:
                res.append((l, d, [out[i]]))
                i += 1
        else:
            part = H.split_outputs([l], out[i:])
            # split_outputs wants an exact fit: find the extent of this operation's output
            n = _extent(l, out, i)
            if n is None:
                return None
            res.append((l, None, out[i:i + n]))
            i += n
    return res if i == len(out) else None


def _extent(l, out, i):
    for n in range(1, len(out) - i + 1):
        if H.split_outputs([l], out[i:i + n]) is not None:
            return n
    return None


# ---------------------------------------------------------------- the client's reading of a text
def parse_int_text(s, signed):
    body = s
    neg = False
    if body[:1] == "+":
        body = body[1:]
    elif body[:1] == "-" and signed:
        neg, body = True, body[1:]
    if not body or any(c not in "0123456789" for c in body):
        return None
    z = int(body)
    return -z if neg else z


def expect_scalar(base, s):
    """typed value for text s of base data type; None = not a value of that type; 'skip' = not judged"""
    if base == 0:
        return (E.STR, s)
    if base == 1:
        return (E.BOOL, s == "true") if s in ("true", "false") else None
    if base in RANGE:
        pr = PARSE_RANGE[base]
        z = parse_int_text(s, pr in (4, 5))
        if z is None:
            return None
        lo, hi = RANGE[pr]
        if not lo <= z <= hi:
            return None
        return (KIND[base], z)
    body = s[1:] if s[:1] in "+-" else s
    if not body or body.count(".") > 1 or any(c not in "0123456789." for c in body) or body == ".":
        return "skip" if any(c in "eEinfaIN" for c in s) and s not in ("abc",) else None
    x = float(s)
    if base == 11:
        return (E.F64, E.f64_bits(x))
    return (E.F32, struct.unpack("<I", struct.pack("<f", x))[0])


def expect_value(t, text):
    if text is None:
        return None
    if t >= 12:
        if not isinstance(text, list):
            return None
        vs = [expect_scalar(t - 12, s) for s in text]
        if any(v is None for v in vs):
            return None
        if any(v == "skip" for v in vs):
            return "skip"
        return (V.ARR[KIND[t - 12]], [v[1] for v in vs])
    if isinstance(text, list):
        return None
    return expect_scalar(t, text)


# ---------------------------------------------------------------- oracle
def monitor(lines, out, props=None):
    al = split(lines, out)
    if al is None:
        if out and out[-1] == [-77]:
            return ["panic: a VISS operation panicked"]
        return ["malformed-output: implementation output does not align with the operations"]
    fails = []
    P = H.Principals()
    paths = {}     # path -> id
    meta = {}      # id -> ADD dict
    core_lines, core_out = [], []
    nsub = 0
    subs = {}      # handle -> dict
    for (l, d, o) in al:
        if d is None:
            pd = H.parse_op(l)
            if pd["name"] == "PERM":
                P.add(pd["scope"], pd["exp"])
            if pd["name"] == "ADD" and o[0][0] == 0:
                paths[pd["path"]] = o[0][1]
                meta[o[0][1]] = pd
            core_lines.append(l)
            core_out += o
            continue
        n_before = len(core_lines)
        fails += _judge_viss(d, o, P, paths, meta, subs, core_lines, core_out)
        if len(core_lines) == n_before:
            # keep the operation count aligned (timestamps are operation indices): a read of nothing
            core_lines.append([H.GET, 0, 2147483647])
            core_out.append([1, 1])
    # the shared monitors judge the VISS traffic rewritten as core operations
    shared = H.monitor(core_lines, core_out, {"C01", "C02", "C03", "C04", "C07"})
    fails += ["C20-shared(" + f.split(":")[0] + "):" + f.split(":", 1)[1] for f in shared
              if not f.startswith(("malformed-output", "C15-bits"))]
    return fails


def _judge_viss(d, o, P, paths, meta, subs, core_lines, core_out):
    fails = []
    for _once in (1,):
        if o[0] == [-88]:
            fails.append("C20-reply: %s got no reply carrying its request id within 2 s" % d["name"])
            continue
        if o[0] == [-77]:
            fails.append("panic: %s panicked" % d["name"])
            continue
        if o[0] == [-5]:
            fails.append("C20-codec: the reply to %s cannot be read as a value of the signal's data type" % d["name"])
            continue
        name = d["name"]
        if name == "VMETA":
            # static metadata (served without a token): what the tree says about a signal is what was registered;
            # every signal at or below the requested path is in it (strict reading), nothing whose path does not
            # even begin with the requested text is (liberal reading)
            req = d["path"]
            if o[0][:1] != [0]:
                fails.append("C20-metadata: a static-metadata request for %r was answered %s" % (req, o[0]))
                continue
            byid = {i: m for i, m in meta.items()}
            seen = set()
            for row in o[1:]:
                i = row[1]
                if i not in byid:
                    continue
                seen.add(i)
                m = byid[i]
                if not m["path"].startswith(req):
                    fails.append("C20-metadata: the metadata of %r lists %s" % (req, m["path"]))
                if row[2] != H.KUKSA_ET[m["etype"]]:
                    fails.append("C15-meta: VISS metadata reports entry type %d for %s (registered entry type %d)" % (
                        row[2], m["path"], m["etype"]))
                if row[3] != H.KUKSA_DT[m["dtype"]]:
                    fails.append("C15-meta: VISS metadata reports data type %d for %s (%s)" % (
                        row[3], m["path"], E.DATA_TYPES[m["dtype"]]))
                if row[-1] != 1:
                    fails.append("C15-meta: VISS metadata reports a description of %s that is not the registered one" % m["path"])
                got = None
                if len(row) > 4 and row[4] == 1:
                    got, _ = E.dec_val(row, 5)
                exp = m.get("allowed")
                if (got is None) != (exp is None) or (got is not None and not H.same_bits(got, exp)):
                    fails.append("C15-meta: VISS metadata reports allowed=%s for %s, registered %s" % (got, m["path"], exp))
            for i, m in byid.items():
                if (req == "" or m["path"] == req or m["path"].startswith(req + ".")) and i not in seen:
                    fails.append("C20-metadata: the metadata of %r lacks %s" % (req, m["path"]))
            continue
        if name == "VRAW":
            import json as _json
            try:
                v = _json.loads(d["text"])
                rid = v.get("requestId") if isinstance(v, dict) else None
            except Exception:
                rid = None
            if o[0][0] != 1:
                fails.append("C20-reply: the frame %r got no reply" % d["text"][:80])
            elif isinstance(rid, str) and o[0][1] != 1:
                fails.append("C20-reply: the reply to %r does not carry its request id" % d["text"][:80])
            continue
        if name in ("VGET", "VSET", "VSUB"):
            tok = d["tok"]
            r = o[0]
            if tok[0] == "open":
                # authorization disabled: served with full rights (principal 0 of these cases holds every scope)
                if not (P.scopes and all(P.can(0, a, "Vehicle.Any", False) for a in ("read", "actuate", "provide", "create"))):
                    fails.append("generator: principal 0 of an open-mode case must hold every scope")
                    continue
                if r[0] == 1 and r[1] in (401, 403) and r != [1, 401, 5]:
                    fails.append("C06-viss-open: authorization is disabled, yet %s with%s answered %s" % (
                        name, tok_name(tok[1]), r))
                p = 0
            elif tok[0] != "p":
                want = [1, 401, 4] if tok[0] == "none" else [1, 401, 3]
                if r != want:
                    fails.append("C20-token: %s with %s answered %s" % (
                        name, "no token" if tok[0] == "none" else "a token that does not verify", r))
                continue
            else:
                p = tok[1]
            i = paths.get(d["path"])
            if i is None:
                if r[:2] != [1, 404]:
                    fails.append("C20-path: %s of the unknown path %r answered %s" % (name, d["path"], r))
                continue
            m = meta[i]
            if name == "VGET":
                # the same read over the core API
                core_lines.append([H.GET, p, i])
                core_out.append([0] + r[1:] + [0] if r[0] == 0 else [1, {404: 1, 403: 2, 401: 3}.get(r[1], 9)])
                can = P.can(p, "read", d["path"], False)
                if can is False and r[0] == 0:
                    fails.append("C20-rights: VISS get of %s served to p%d without read permission" % (d["path"], p))
                if can is True and r[0] != 0:
                    fails.append("C20-rights: VISS get of %s refused (%s) although p%d may read it" % (d["path"], r, p))
            elif name == "VSET":
                if m["etype"] != 2:
                    if r != [1, 401, 5]:
                        fails.append("C20-set: set on the non-actuator %s answered %s" % (d["path"], r))
                    continue
                v = expect_value(m["dtype"], d["text"])
                if v == "skip":
                    continue
                can = P.can(p, "actuate", d["path"], False)
                dom = V.in_domain(m["dtype"], m.get("min"), m.get("max"), m.get("allowed"), v, True) if v else False
                if v and dom is False and V.in_domain(m["dtype"], m.get("min"), m.get("max"), m.get("allowed"), v, False) is not False:
                    dom = None        # inside the broker's float tolerance: either answer is admissible
                if r[0] == 0:
                    if v is None:
                        fails.append("C20-set: text %r was accepted for %s of type %s" % (
                            d["text"], d["path"], E.DATA_TYPES[m["dtype"]]))
                    elif dom is False:
                        fails.append("C20-set: %r accepted for %s outside its range / allowed values" % (d["text"], d["path"]))
                    elif can is False:
                        fails.append("C20-rights: VISS set of %s accepted for p%d without actuate permission" % (d["path"], p))
                    if v not in (None, "skip"):
                        core_lines.append([H.UPDATE, p, 1, i, 2] + E.val(*v))
                        core_out.append([0])
                else:
                    if v is not None and dom is True and can is True:
                        fails.append("C20-set: the well-formed in-range text %r was refused for %s (%s)" % (
                            d["text"], d["path"], r))
                    if v is None and r[:2] != [1, 400] and can is not False:
                        fails.append("C20-set: malformed text %r for %s answered %s, not bad_request" % (
                            d["text"], d["path"], r))
            elif name == "VSUB":
                if r[0] == 0:
                    subs[r[1]] = {"id": i, "p": p, "path": d["path"], "open": True}
                    core_lines.append([H.SUB, p, 0, 0, 1, i, 1])
                    core_out.append([0, r[1]])
        elif name == "VUNSUB":
            s = subs.get(d["h"])
            if s and s["open"]:
                if o[0] != [0]:
                    fails.append("C20-unsubscribe: unsubscribing a live subscription answered %s" % o[0])
                s["open"] = False
                core_lines.append([H.DROP, d["h"]])
                core_out.append([0])
            elif o[0][:2] != [1, 404]:
                fails.append("C20-unsubscribe: unsubscribing an unknown subscription answered %s" % o[0])
        elif name == "VRECV":
            s = subs.get(d["h"])
            if s is None or not s["open"]:
                continue
            msgs = []
            for e in o[:-1]:
                if e[0] == 120:
                    msgs.append([100, 1, s["id"], 1, 1] + e[1:] + [0])
                elif e[0] == 121:
                    msgs.append([100, 0])
                    if P.can(s["p"], "read", s["path"], False) is True:
                        fails.append("C20-events: subscription %d to the readable %s got error event %d" % (
                            d["h"], s["path"], e[1]))
                else:
                    fails.append("C20-codec: an event cannot be read as a value of the signal's data type")
            core_lines.append([H.RECV, d["h"], d["k"]])
            core_out += msgs + [[101, len(msgs), 0]]
    return fails


def pretty(lines):
    out = []
    for l in lines:
        if l[0] == VRAW:
            out.append("VISS raw frame %r" % parse_viss(l)["text"][:100])
        elif l[0] == VMETA:
            out.append("VISS get static metadata of %r" % parse_viss(l)["path"])
        elif 50 <= l[0] <= 54:
            d = parse_viss(l)
            t = d.get("tok")
            who = tok_name(t)
            if d["name"] == "VSET":
                out.append("VISS set%s %s := %r" % (who, d["path"], d["text"]))
            elif d["name"] in ("VGET", "VSUB"):
                out.append("VISS %s%s %s" % ("get" if d["name"] == "VGET" else "subscribe", who, d["path"]))
            elif d["name"] == "VUNSUB":
                out.append("VISS unsubscribe sub%d" % d["h"])
            else:
                out.append("VISS read up to %d events of sub%d" % (d["k"], d["h"]))
        else:
            out.append(H.show_op(H.parse_op(l)))
    return out

"""History family (fam 1): generator, decoder/pretty-printer and the property monitors that read
implementation traces.  Operation lines are documented in coq/Model/BrokerRun.v."""
import itertools
from . import enc as E
from .props import c02 as V
from .props import c05 as S

FAM = 1
PERM, ADD, UPDATE, GET, SUB, RECV, DROP, PROVIDE, PROVDOWN, ACTUATE, BATCH, CLEANUP, SHUTDOWN, TICK, DUMP = range(15)
OPN = ["PERM", "ADD", "UPDATE", "GET", "SUB", "RECV", "DROP", "PROVIDE", "PROVDOWN", "ACTUATE", "BATCH",
       "CLEANUP", "SHUTDOWN", "TICK", "DUMP", "?15", "?16", "?17", "?18", "?19", "V1GET", "V1SET", "V2GET", "V2GETS",
       "V2PUB", "V2ACT", "V2BATCH", "V2META", "SDVGET", "SDVSET", "SDVUPD", "SDVREG", "SDVMETA", "V1SUB", "V2SUB"]
V1SUB, V2SUB = 33, 34
OPN += ["?%d" % k for k in range(len(OPN), 60)] + ["SPROV", "SPUB", "V1STR", "SDVSTR", "LPROV"]
SPROV, SPUB, V1STR, SDVSTR, LPROV = 60, 61, 62, 63, 64
V1GET, V1SET, V2GET, V2GETS, V2PUB, V2ACT, V2BATCH, V2META, SDVGET, SDVSET, SDVUPD, SDVREG, SDVMETA = range(20, 33)

PATHS = ["Vehicle.Speed", "Vehicle.SpeedLimit", "Vehicle.Speed2", "Vehicle.Cabin.Door.Row1.Left",
         "Vehicle.Cabin.Door.Row2.Left", "Vehicle.Cabin.Lights.IsOn", "Vehicle.ADAS.ABS.IsEnabled",
         "Vehicle.ADAS.CruiseControl.SpeedSet", "Vehicle.Body.Horn", "Vehicle.Chassis.Axle.Row1.Tire",
         "Other.Branch.Leaf", "Vehicle.VIN"]
SCOPE_PATHS = ["Vehicle", "Vehicle.Speed", "Vehicle.Cabin", "Vehicle.Cabin.Door.*.Left", "Vehicle.*", "*.Branch.Leaf",
               "Vehicle.ADAS", "Vehicle.ADAS.*.IsEnabled", "Vehicle.Cabin.Door.Row2", "Other", "Vehicle.Body.Horn",
               "Vehicle.Speed2", "Vehicle.Spee", "*", "*", "*.*"]
ALL_SCOPE = "read actuate provide create"
# Unicode White_Space (regex \s, char::is_whitespace)
UNI_WS = set("\t\n\x0b\x0c\r \x85\xa0\u1680\u2028\u2029\u202f\u205f\u3000") | {chr(c) for c in range(0x2000, 0x200b)}


def opt(v):
    return [0] if v is None else [1] + v


class Gen:
    """builds one history; keeps a light-weight picture of what exists so that later operations are
    mostly meaningful (ids of registered signals, open subscriptions, providers)"""

    def __init__(self, rng, weights, nsig=(3, 7), allow_expiry=True, wide_values=False, plain_meta=0.5):
        self.wide_values = wide_values
        self.plain_meta = plain_meta
        self.rng = rng
        self.w = weights
        self.lines = []
        self.nperm = 0
        self.sigs = []          # (id, path, dtype, etype, (mn, mx, al))
        self.subs = 0
        self.provs = 0
        self.expiring = []
        self.ticked = False
        self.nsig = nsig
        self.allow_expiry = allow_expiry

    def perm(self, scope, exp=0):
        self.lines.append([PERM, exp] + E.s(scope))
        self.nperm += 1
        if exp:
            self.expiring.append(self.nperm - 1)
        return self.nperm - 1

    def rand_scope(self):
        r = self.rng
        chunks = []
        for _ in range(r.randrange(1, 4)):
            a = r.choice(S.ACTIONS)
            chunks.append(a if r.random() < 0.15 else a + ":" + r.choice(SCOPE_PATHS))
        return " ".join(chunks)

    def meta_for(self, t):
        r = self.rng
        ms = V.metas_for(t)
        if r.random() < self.plain_meta:
            return (None, None, None)
        mn, mx, al = r.choice(ms)
        # keep the allowed list well-typed most of the time
        k = V.NAT[t][0]
        if al is not None and al[0] != V.ARR[k] and r.random() < 0.8:
            al = None
        return (mn, mx, al)

    def add(self, p, path, t, ct, et, meta):
        mn, mx, al = meta
        self.lines.append([ADD, p] + E.s(path) + [t, ct, et] + opt(mn) + opt(mx) + opt(al))

    def value_for(self, sig, valid_bias=0.75):
        r = self.rng
        _id, path, t, et, (mn, mx, al) = sig
        k, arr, narrow = V.NAT[t]
        if r.random() < valid_bias:
            pool = V.POOL[k]
            if al is not None and al[0] == V.ARR[k] and r.random() < 0.7:
                x = r.choice(E.dec_val(al)[0][1])
            else:
                x = r.choice(pool if (self.wide_values and mn is None and mx is None) else pool[:6])
                if self.wide_values and mn is None and mx is None and k in WIDE:
                    x = r.choice([x] + WIDE[k])
            if arr and self.wide_values:
                return E.val(V.ARR[k], [r.choice(pool + WIDE.get(k, [])) for _ in range(r.randrange(0, 5))])
            return E.val(V.ARR[k], [x] * r.randrange(0, 3)) if arr else E.val(k, x)
        c = r.random()
        if c < 0.4:
            x = r.choice(V.POOL[k])
            return E.val(V.ARR[k], [r.choice(V.POOL[k][:3]), x]) if arr else E.val(k, x)
        if c < 0.6:
            return [0]
        kk = r.randrange(17)
        return E.val(kk, V.REPR[kk])

    def any_id(self):
        r = self.rng
        if self.sigs and r.random() < 0.93:
            return r.choice(self.sigs)[0]
        return r.choice([len(self.sigs), len(self.sigs) + 3, -1, 2**31 - 1])

    def sig_by_id(self, i):
        for s in self.sigs:
            if s[0] == i:
                return s
        return None

    def who(self):
        r = self.rng
        if self.ticked and self.expiring and r.random() < 0.35:
            return r.choice(self.expiring)       # an expired token keeps being presented
        return 0 if r.random() < 0.45 else r.randrange(self.nperm + (1 if r.random() < 0.05 else 0))

    def setup(self):
        r = self.rng
        self.perm(ALL_SCOPE)
        for _ in range(r.randrange(1, 4)):
            exp = 1 if (self.allow_expiry and r.random() < 0.3) else 0
            self.perm(self.rand_scope(), exp)
        if self.allow_expiry and r.random() < 0.3:
            # a broad token that expires: blanket actions, everything, one whole branch
            self.perm(r.choice(["read", "actuate", "provide", "create", ALL_SCOPE, "read:Vehicle", "read actuate",
                                "read:* provide", "actuate:Vehicle create"]), 1)
        if r.random() < 0.3:
            self.perm("read:Vehicle bogus")      # invalid claim: principal index is not consumed
            self.nperm -= 1
        n = r.randrange(*self.nsig)
        for path in r.sample(PATHS, n):
            t = r.randrange(24)
            et = r.choice([0, 0, 1, 2, 2])
            ct = r.choice([0, 1, 2, 2])
            meta = self.meta_for(t)
            self.add(0, path, t, ct, et, meta)
            self.sigs.append((len(self.sigs), path, t, et, meta))
        self.lines.append([DUMP])

    def op(self):
        r = self.rng
        kinds = list(self.w.keys())
        k = r.choices(kinds, [self.w[x] for x in kinds])[0]
        L = self.lines
        if k == "update":
            n = r.choice([1, 1, 1, 2, 3, 4])
            body = []
            for _ in range(n):
                i = self.any_id()
                sig = self.sig_by_id(i) or (r.choice(self.sigs) if self.sigs else None)
                fl = r.choice([1, 1, 1, 1, 2, 2, 3, 4, 8, 9, 0])
                if sig is None:
                    fl = 4
                body += [i, fl]
                if fl & 1:
                    body += self.value_for(sig)
                if fl & 2:
                    body += self.value_for(sig)
            L.append([UPDATE, self.who(), n] + body)
        elif k == "get":
            L.append([GET, self.who(), self.any_id()])
        elif k == "add":
            if r.random() < 0.4 and self.sigs:
                s = r.choice(self.sigs)          # re-registration
                self.add(self.who(), s[1], r.randrange(24), r.randrange(3), r.randrange(3), (None, None, None))
            else:
                bad = r.random() < 0.35
                name = r.choice(["", ".", "A..B", "Vehicle.", ".Vehicle", "Veh icle.X", "Vehicle:X", "Vehicle.*",
                                 "Vehicle.New*", "Vehicle.A\u000bB", "Vehicle.A\u00a0B", "Vehicle.\u2028", "Vehicle.X\u3000",
                                 "Vehicle.A\u0085", "Vehicle.\u2003B", "\u1680Vehicle.A", "Vehicle.A\u202fB",
                                 "Vehicle.A\u205fB", "Vehicle.A\u000cB"]) if bad else r.choice(
                    [p for p in PATHS + ["Vehicle.Extra%d" % len(L), "X"] if p not in [s[1] for s in self.sigs]])
                t = r.randrange(24)
                meta = self.meta_for(t)
                if r.random() < 0.2:
                    kk = r.randrange(9, 17)
                    meta = (meta[0], meta[1], E.val(kk, V.REPR[kk]))
                p = self.who()
                self.add(p, name, t, r.randrange(3), r.randrange(3), meta)
                k2 = V.NAT[t][0]
                okmeta = meta[2] is None or meta[2][0] == V.ARR[k2]
                if p == 0 and not bad and okmeta:
                    self.sigs.append((len(self.sigs), name, t, L[-1][-1 - 0] if False else 0, meta))
                    # entry type of the new signal: re-read from the line
                    ln = L[-1]
                    m = ln[2]
                    et = ln[3 + m + 2]
                    self.sigs[-1] = (len(self.sigs) - 1, name, t, et, meta)
        elif k == "sub":
            n = r.choice([1, 1, 2, 3])
            ids = []
            for _ in range(n):
                i = self.any_id()
                if i not in ids:
                    ids.append(i)
            if r.random() < 0.05:
                ids = []
            body = []
            for i in ids:
                body += [i, r.choice([1, 1, 1, 2, 3, 3, 4, 5, 7, 0])]
            bf = r.choice([0, 0, 1, 1, 1])
            buf = r.choice([0, 1, 2, 3, 7, 8, 999, 1000, 1001, 2**32 - 1])
            L.append([SUB, self.who(), bf, buf, len(ids)] + body)
            self.subs += 1          # upper bound; failed subscribes leave a gap that RECV will report as bad
        elif k == "recv" and self.subs:
            L.append([RECV, r.randrange(self.subs), r.choice([1, 1, 2, 5, 50])])
        elif k == "drop" and self.subs:
            L.append([DROP, r.randrange(self.subs)])
        elif k == "provide":
            acts = [s[0] for s in self.sigs if s[3] == 2] or [s[0] for s in self.sigs]
            n = r.choice([1, 1, 2, 3])
            ids = [r.choice(acts) if r.random() < 0.85 else self.any_id() for _ in range(n)] if acts else [0]
            L.append([PROVIDE, self.who(), len(ids)] + ids)
            self.provs += 1
        elif k == "provdown" and self.provs:
            L.append([PROVDOWN, r.randrange(self.provs)])
        elif k == "actuate":
            i = self.any_id()
            sig = self.sig_by_id(i) or (self.sigs[0] if self.sigs else None)
            if sig:
                L.append([ACTUATE, self.who(), i] + self.value_for(sig, 0.8))
        elif k == "batch":
            n = r.choice([1, 2, 2, 3, 4])
            body = []
            for _ in range(n):
                i = self.any_id()
                sig = self.sig_by_id(i) or (self.sigs[0] if self.sigs else None)
                if sig:
                    body += [i] + self.value_for(sig, 0.85)
                else:
                    n -= 1
            L.append([BATCH, self.who(), n] + body)
        elif k == "cleanup":
            L.append([CLEANUP])
        elif k == "shutdown":
            L.append([SHUTDOWN])
        elif k == "tick" and self.expiring and not self.ticked:
            L.append([TICK])
            self.ticked = True
        elif k in API_KINDS:
            self.api_op(k)
        else:
            L.append([GET, 0, self.any_id()])
        if L[-1][0] in (UPDATE, ADD, ACTUATE, BATCH, PROVIDE, CLEANUP, SHUTDOWN, TICK, SUB, V1SET, V2PUB, V2ACT,
                        V2BATCH, SDVSET, SDVUPD, SDVREG):
            L.append([DUMP])

    # ---- gRPC handler operations
    def sig(self, sigobj=None):
        """a v2 SignalID: mostly a path or id of a known signal"""
        r = self.rng
        c = r.random()
        if c < 0.04:
            return [0], None
        if c < 0.08:
            return [1], None
        s = sigobj or (r.choice(self.sigs) if self.sigs else None)
        if s is None or c < 0.14:
            return (r.choice([[2] + E.s("Vehicle.Nope"), [2] + E.s("A" * 1001), [3, 999], [3, -1], [2] + E.s("")])), None
        return ([2] + E.s(s[1]) if r.random() < 0.5 else [3, s[0]]), s

    def oov(self, sigobj, valid=0.8):
        """optional message holding an optional value"""
        r = self.rng
        c = r.random()
        if c < 0.05:
            return [0]
        if c < 0.10 or sigobj is None:
            return [1, 0]
        return [1, 1] + self.value_for(sigobj, valid) if True else None

    def api_op(self, k):
        r = self.rng
        L = self.lines
        p = self.who()
        some = lambda: (r.choice(self.sigs) if self.sigs else None)
        if k == "v1get":
            path = r.choice([s[1] for s in self.sigs] + ["Vehicle", "Vehicle.*", "**", "Vehicle.Cabin", "Vehicle.**.Left",
                                                         "", "Vehicle..X", "Nope", "Vehicle.ADAS.*.IsEnabled", "*.*"])
            # one request in three names fields explicitly (Value / ActuatorTarget / Metadata) beside the view
            mask = [r.choice([1, 2, 3, 4, 5, 6, 7, 8 + 1, 16 + 1, 32 + 2, 64 + 1, 16 + 64 + 1, 8 + 16, 32, 8 + 16 + 32 + 3,
                              r.randrange(128)])] if r.random() < 0.4 else []
            L.append([V1GET, p, r.choice([0, 1, 1, 2, 3, 3, 20, 10, 10, 7])] + E.s(path) + mask)
        elif k == "v1set":
            n = r.choice([1, 1, 2, 3])
            body = []
            for _ in range(n):
                s0 = some()
                c = r.random()
                if c < 0.04:
                    body += [0, r.choice([1, 2, 3]), 0, 0]
                    continue
                path = s0[1] if (s0 and c > 0.12) else "Vehicle.Unknown"
                fields = r.choice([1, 1, 1, 2, 3, 0])
                v = [1, 1] + self.value_for(s0) if (s0 and r.random() < 0.8) else r.choice([[0], [1, 0]])
                t = [0] if r.random() < 0.6 else ([1, 1] + self.value_for(s0) if s0 else [1, 0])
                body += [1] + E.s(path) + [fields] + v + t
            L.append([V1SET, p, n] + body)
        elif k == "v2get":
            sg, _ = self.sig()
            L.append([V2GET, p] + sg)
        elif k == "v2gets":
            n = r.choice([0, 1, 2, 3])
            body = []
            for _ in range(n):
                sg, _ = self.sig()
                if sg == [0]:
                    sg = [1]
                body += sg
            L.append([V2GETS, p, n] + body)
        elif k == "v2pub":
            sg, so = self.sig()
            L.append([V2PUB, p] + sg + self.oov(so or some()))
        elif k == "v2act":
            acts = [s for s in self.sigs if s[3] == 2]
            so = r.choice(acts) if acts and r.random() < 0.7 else some()
            sg, so2 = self.sig(so)
            L.append([V2ACT, p] + sg + self.oov(so2 or so, 0.85))
        elif k == "v2batch":
            n = r.choice([0, 1, 2, 3])
            body = []
            acts = [s for s in self.sigs if s[3] == 2]
            for _ in range(n):
                so = r.choice(acts) if acts and r.random() < 0.75 else some()
                sg, so2 = self.sig(so)
                body += sg + self.oov(so2 or so, 0.9)
            L.append([V2BATCH, p, n] + body)
        elif k == "v2meta":
            L.append([V2META, p] + E.s(r.choice(["Vehicle", "**", "", "Vehicle.Cabin", "Vehicle.*", "Nope", "Vehicle. X",
                                                   "Vehicle.ADAS.ABS"] + [s[1] for s in self.sigs[:2]])))
        elif k == "sdvget":
            names = [r.choice([s[1] for s in self.sigs] + ["Vehicle.Nope"]) for _ in range(r.choice([0, 1, 2, 3]))]
            names = list(dict.fromkeys(names))
            L.append([SDVGET, p, len(names)] + sum([E.s(x) for x in names], []))
        elif k == "sdvset":
            names = list(dict.fromkeys([r.choice([s[1] for s in self.sigs] + ["Vehicle.Nope"])
                                        for _ in range(r.choice([1, 1, 2, 3]))]))
            body = []
            for nme in names:
                so = next((s for s in self.sigs if s[1] == nme), None)
                body += E.s(nme) + ([1] + self.value_for(so) if (so and r.random() < 0.9) else [0])
            L.append([SDVSET, p, len(names)] + body)
        elif k == "sdvupd":
            ids = list(dict.fromkeys([self.any_id() for _ in range(r.choice([1, 1, 2, 3]))]))
            body = []
            for i in ids:
                so = self.sig_by_id(i)
                body += [i] + ([1] + self.value_for(so) if (so and r.random() < 0.9) else [0])
            L.append([SDVUPD, p, len(ids)] + body)
        elif k == "sdvreg":
            n = r.choice([1, 1, 2, 3])
            body = []
            for j in range(n):
                nme = r.choice(["Vehicle.Reg%d" % (len(L) * 4 + j), "Vehicle.Speed", "Bad..Name", "Vehicle.RegX"])
                dt = r.choice([0, 1, 4, 5, 10, 11, 20, 24, 31, 12, 99])
                ct = r.choice([0, 1, 2, 2, 7])
                body += E.s(nme) + [dt, ct]
            L.append([SDVREG, p, n] + body)
        elif k == "sdvmeta":
            names = [r.choice([s[1] for s in self.sigs] + ["Vehicle.Nope"]) for _ in range(r.choice([0, 0, 1, 2]))]
            L.append([SDVMETA, p, len(names)] + sum([E.s(x) for x in names], []))
        elif k == "v1sub":
            # kuksa.val.v1 Subscribe: a leaf, a branch, now and then something unknown / invalid / over-long
            # (wildcard selection is the glob family's subject)
            leaves = [s[1] for s in self.sigs]
            branches = sorted({".".join(x.split(".")[:n]) for x in leaves for n in range(1, x.count(".") + 1)})
            n = r.choice([1, 1, 1, 2, 2, 3])
            chosen, body = [], []
            for _ in range(n):
                c = r.random()
                path = (r.choice(leaves) if c < 0.6 and leaves else r.choice(branches) if c < 0.88 and branches else
                        r.choice(["Vehicle.Nope", "Vehicle..X", "A" * 1001, "", "Vehicle. X"]))
                if path in chosen:
                    continue                      # the handler keys its entries by path: no duplicates
                chosen.append(path)
                body += [r.choice([1, 1, 1, 2, 3, 3, 5, 7, 0])] + E.s(path)
            L.append([V1SUB, p, len(chosen)] + body)
            self.subs += 1
        elif k == "v2sub":
            # kuksa.val.v2 Subscribe (paths) / SubscribeById (ids) with a buffer size
            n = r.choice([1, 1, 2, 3, 0])
            by_id = r.random() < 0.5
            body = []
            for _ in range(n):
                so = some()
                c = r.random()
                if by_id:
                    body += [3, so[0] if (so and c > 0.1) else r.choice([999, -1])]
                else:
                    body += [2] + E.s(so[1] if (so and c > 0.1) else r.choice(["Vehicle.Nope", "A" * 1001, "", "Vehicle"]))
            L.append([V2SUB, p, r.choice([0, 0, 1, 2, 5, 10, 1000, 1001, 100000]), n] + body)
            self.subs += 1


WIDE = {E.F32: [0x7FC00000, 0xFFC00001, 0x7F800001, 0x00000001, 0x807FFFFF, 0x7F7FFFFF, 0xFF800000],
        E.F64: [0x7FF8000000000000, 0xFFF8000000000001, 0x7FF0000000000001, 1, 0x800FFFFFFFFFFFFF,
                0x7FEFFFFFFFFFFFFF, 0xFFF0000000000000],
        E.I32: [-2**31, 2**31 - 1], E.I64: [-2**63, 2**63 - 1], E.U32: [2**32 - 1], E.U64: [2**64 - 1],
        E.STR: ["", "ä-ö", "a" * 300, " ", "\u0000x"]}
API_KINDS = ("v1get", "v1set", "v2get", "v2gets", "v2pub", "v2act", "v2batch", "v2meta", "sdvget", "sdvset",
             "sdvupd", "sdvreg", "sdvmeta", "v1sub", "v2sub")
# handler-level subscriptions (v1 Subscribe, v2 Subscribe / SubscribeById) among writes through every API
W_APISUB = {"v1sub": 3, "v2sub": 3, "recv": 6, "drop": 0.7, "v1set": 4, "v2pub": 4, "sdvupd": 3, "sdvset": 2, "update": 4,
            "cleanup": 0.8, "tick": 0.4, "shutdown": 0.1, "add": 0.4, "get": 0.5}
W_API = {"v1get": 3, "v1set": 4, "v2get": 3, "v2gets": 1.5, "v2pub": 4, "v2act": 2, "v2batch": 2, "v2meta": 1,
         "sdvget": 2, "sdvset": 2, "sdvupd": 3, "sdvreg": 1, "sdvmeta": 1, "update": 2, "get": 1, "provide": 1.5,
         "provdown": 0.3, "cleanup": 0.3, "tick": 0.4, "add": 0.5}
W_STORE = {"update": 10, "get": 4, "add": 1.5, "sub": 1, "recv": 1, "tick": 0.4, "actuate": 1, "cleanup": 0.3}
W_SUBS = {"update": 10, "sub": 3, "recv": 5, "drop": 0.7, "cleanup": 1, "tick": 0.4, "shutdown": 0.15, "get": 1,
          "add": 0.5}
W_ACT = {"provide": 3, "actuate": 5, "batch": 5, "provdown": 1, "cleanup": 1.2, "tick": 0.5, "update": 1, "get": 1,
         "shutdown": 0.1}
W_REG = {"add": 8, "get": 3, "update": 3, "sub": 0.5, "tick": 0.3}
W_MIX = {"update": 6, "get": 3, "add": 1, "sub": 2, "recv": 3, "drop": 0.4, "provide": 1.5, "actuate": 2, "batch": 2,
         "provdown": 0.5, "cleanup": 0.8, "tick": 0.4, "shutdown": 0.1}


def stream_scenario(rng):
    """kuksa.val.v2 OpenProviderStream on the real server: providers claim actuators through their streams
    (identifiers by id, by path, mixed, in every order; claims that must fail: unknown path, overlap, no actuate
    scope), callers actuate singly and in batches, providers publish values (valid, ill-typed, unknown ids,
    without provide scope) through the same streams; the state and every provider's inbox dumped after each"""
    L = [[PERM, 0] + E.s(ALL_SCOPE), [PERM, 0] + E.s(ALL_SCOPE), [PERM, 0] + E.s("actuate provide:Vehicle.S.Act0 read"),
         [PERM, 0] + E.s("read")]
    n = rng.randrange(5, 9)
    names = ["Vehicle.S.Act%d" % i for i in range(n)]
    for i in range(n):
        L.append([ADD, 0] + E.s(names[i]) + [rng.choice([4, 4, 1, 10, 16]), rng.randrange(3), 2, 0, 0, 0])
    L.append([ADD, 0] + E.s("Vehicle.S.Sen") + [4, 1, 0, 0, 0, 0])
    types = {i: L[4 + i][-6] for i in range(n)}
    sensor = n

    def val(i, ok=True):
        t = types.get(i, 4)
        good = {4: E.val(E.I32, rng.randrange(100)), 1: E.val(E.BOOL, rng.random() < 0.5),
                10: E.val(E.F32, V.F(float(rng.randrange(50)))), 16: E.val(E.I32A, [rng.randrange(9) for _ in range(rng.randrange(3))])}[t]
        return good if ok else rng.choice([E.val(E.STR, "x"), E.val(E.I64, 2**40), E.val(E.U64, 7)])

    def ident(i):
        return [3, i] if rng.random() < 0.5 else [2] + E.s(names[i] if i < n else "Vehicle.S.Sen")

    ids = list(range(n))
    rng.shuffle(ids)
    k = rng.randrange(1, n - 2)
    claims = [(1, ids[:k]), (2, ids[k:n - 2])]
    free = ids[n - 2:]
    # principal 4 may actuate ONE of the two free actuators only
    L.insert(4, [PERM, 0] + E.s("read provide actuate:%s" % names[free[0]]))
    handles = {}            # handle -> (principal, ids)
    next_h = 0
    for p, mine in claims:
        named = list(mine)
        if rng.random() < 0.35:
            # the same actuator named twice in one claim (by id and by path, or the same way): still one claim
            named.insert(rng.randrange(len(named) + 1), rng.choice(mine))
        body = sum((ident(i) for i in named), [])
        extra = rng.choice([[], [0], [1]])
        L.append([SPROV, p, len(named) + len(extra)] + body + sum(([x] for x in extra), []))
        handles[next_h] = (p, mine)
        next_h += 1
    # claims that must fail and allocate nothing
    for _ in range(rng.randrange(0, 3)):
        c = rng.random()
        if c < 0.35:
            L.append([SPROV, 1, 2] + [2] + E.s("Vehicle.S.Nope") + ident(free[0]))
        elif c < 0.7:
            L.append([SPROV, 1, 2] + ident(free[0]) + ident(claims[0][1][0]))
        else:
            L.append([SPROV, 3, 1] + ident(free[0]))
    if rng.random() < 0.6:
        # a claim of both free actuators by a token that covers only one of them (named first or last): refused as a
        # whole - the covered actuator stays unclaimed, actuating it finds no provider
        order = [free[0], free[1]] if rng.random() < 0.6 else [free[1], free[0]]
        L.append([SPROV, 4, 2] + ident(order[0]) + ident(order[1]))
        L.append([DUMP])
        L.append([ACTUATE, 0, free[0]] + val(free[0]))
        L.append([DUMP])
        # ... and it can be claimed by somebody entitled to it
        L.append([SPROV, 1, 1] + ident(free[0]))
        handles[next_h] = (1, [free[0]])
        next_h += 1
        free = free[1:]
    L.append([DUMP])
    owned = [i for _, m in claims for i in m]
    for _ in range(rng.randrange(6, 16)):
        c = rng.random()
        p = rng.choice([0, 0, 1, 2, 3])
        if c < 0.3:
            i = rng.choice(owned + free + [sensor])
            if rng.random() < 0.5:
                L += [[ACTUATE, p, i] + val(i, rng.random() < 0.85)]
            else:       # through the kuksa.val.v2 Actuate handler, the actuator named by id or by path
                L += [[V2ACT, p] + ident(i) + [1, 1] + val(i, rng.random() < 0.85)]
        elif c < 0.6:
            xs = rng.sample(owned, min(len(owned), rng.randrange(1, 4)))
            if rng.random() < 0.2:
                xs.append(rng.choice(free + [sensor, n + 7]))
            rng.shuffle(xs)
            if rng.random() < 0.4:
                L += [[BATCH, p, len(xs)] + sum(([i] + val(i, rng.random() < 0.9) for i in xs), [])]
            else:
                # through the kuksa.val.v2 BatchActuate handler: identifiers by id and by path mixed in every order,
                # distinct values, so that a value delivered for the wrong actuator shows
                L += [[V2BATCH, p, len(xs)] + sum((ident(i) + [1, 1] + val(i, rng.random() < 0.9) for i in xs), [])]
        else:
            h = rng.choice(sorted(handles))
            hp, mine = handles[h]
            xs = rng.sample(range(n + 1), rng.randrange(1, 4))
            if rng.random() < 0.2:
                xs.append(n + 9)
            body = []
            for i in xs:
                body += [i] + ([0] if rng.random() < 0.08 else [1] + val(i, rng.random() < 0.8))
            L += [[SPUB, hp, h, len(xs)] + body]
        L.append([DUMP])
    return L


def client_stream_scenario(rng):
    """the two client-streaming write RPCs on the real server: kuksa.val.v1 StreamedUpdate and sdv Collector
    StreamDatapoints.  Each principal keeps one stream open for the whole case and every operation is one request
    message on it: batches with valid and invalid values, unknown paths / ids, elements without entry, targets for
    sensors, duplicates, by principals with full, partial and no provide / actuate scope; the same batches also go
    through the unary Set / UpdateDatapoints now and then; the state is dumped and read back after each"""
    L = [[PERM, 0] + E.s(ALL_SCOPE), [PERM, 0] + E.s("provide:Vehicle.C.S0 provide:Vehicle.C.S1 actuate:Vehicle.C.A0 read"),
         [PERM, 0] + E.s("read"), [PERM, 0] + E.s("provide actuate")]
    n = rng.randrange(3, 6)
    sigs = []
    for i in range(n):
        et = rng.choice([0, 0, 2, 2, 1])
        t = rng.choice([4, 4, 1, 10, 11, 0, 9, 16, 2])
        name = "Vehicle.C.%s%d" % ("A" if et == 2 else "S", i)
        mn, mx, al = (None, None, None)
        if t == 4 and rng.random() < 0.5:
            mn, mx = E.val(E.I32, -5), E.val(E.I32, 50)
        L.append([ADD, 0] + E.s(name) + [t, rng.randrange(3), et] + opt(mn) + opt(mx) + opt(al))
        sigs.append((i, name, t, et))
    L.append([DUMP])

    def val(t, ok=True):
        good = {4: lambda: E.val(E.I32, rng.choice([0, 1, 7, 49, 50, -5])), 1: lambda: E.val(E.BOOL, rng.random() < 0.5),
                10: lambda: E.val(E.F32, V.F(float(rng.randrange(50)))), 11: lambda: E.val(E.F64, V.D(rng.random())),
                0: lambda: E.val(E.STR, rng.choice(["", "a", "bc"])), 9: lambda: E.val(E.U64, rng.choice([0, 2**63, 2**64 - 1])),
                16: lambda: E.val(E.I32A, [rng.randrange(9) for _ in range(rng.randrange(3))]),
                2: lambda: E.val(E.I32, rng.choice([-128, 127, 5]))}[t]()
        if ok:
            return good
        return rng.choice([E.val(E.STR, "x") if t != 0 else E.val(E.I32, 1), E.val(E.I64, 2**40), E.val(E.I32, 51 if t == 4 else 300),
                           E.val(E.U64, 7) if t != 9 else E.val(E.I32, -1)])

    def v1_updates():
        k = rng.choice([1, 1, 2, 3, 4])
        body = []
        for _ in range(k):
            c = rng.random()
            if c < 0.08:
                body += [0, rng.choice([1, 2, 3]), 0, 0]                     # no entry
                continue
            i, name, t, et = rng.choice(sigs)
            path = name if c > 0.2 else rng.choice(["Vehicle.C.Nope", "Vehicle.C", ""])
            fields = rng.choice([1, 1, 1, 2, 3, 0])
            v = [1, 1] + val(t, rng.random() < 0.8) if rng.random() < 0.85 else rng.choice([[0], [1, 0]])
            # a target: mostly on actuators, now and then on a sensor (refused by the handler itself)
            want_t = rng.random() < (0.5 if et == 2 else 0.15)
            tt = ([1, 1] + val(t, rng.random() < 0.8) if rng.random() < 0.85 else [1, 0]) if want_t else [0]
            body += [1] + E.s(path) + [fields] + v + tt
        return [k] + body

    def sdv_updates():
        ids = list(dict.fromkeys(rng.choice([s[0] for s in sigs] + [n + 2, -1]) for _ in range(rng.choice([1, 1, 2, 3]))))
        body = []
        for i in ids:
            t = sigs[i][2] if 0 <= i < n else 4
            body += [i] + ([1] + val(t, rng.random() < 0.8) if rng.random() < 0.9 else [0])
        return [len(ids)] + body

    # a signal that is registered only later: a stream that was told "not found" for it must accept it afterwards
    late = ("Vehicle.C.Late", rng.choice([4, 1, 10]))
    late_at = rng.randrange(2, 8)
    for step in range(rng.randrange(8, 18)):
        c = rng.random()
        p = rng.choice([0, 0, 1, 1, 2, 3])
        if step == late_at:
            L.append([ADD, 0] + E.s(late[0]) + [late[1], rng.randrange(3), rng.choice([0, 2]), 0, 0, 0])
            sigs.append((n, late[0], late[1], L[-1][-4]))
            L.append([DUMP])
        if step in (late_at - 1, late_at - 2, late_at, late_at + 1) and rng.random() < 0.8:
            # the late signal by path (v1 stream) and by its future id (sdv stream), before and after it exists
            pp = rng.choice([0, 0, 1])
            L.append([V1STR, pp, 1, 1] + E.s(late[0]) + [1, 1, 1] + val(late[1]) + [0])
            L.append([DUMP])
            L.append([SDVSTR, pp, 1, n, 1] + val(late[1]))
            L.append([DUMP])
        if c < 0.45:
            L.append([V1STR, p] + v1_updates())
        elif c < 0.8:
            L.append([SDVSTR, p] + sdv_updates())
        elif c < 0.9:
            L.append([V1SET, p] + v1_updates())
        else:
            L.append([SDVUPD, p] + sdv_updates())
        L.append([DUMP])
        if rng.random() < 0.5:
            i = rng.choice(sigs)[0]
            L.append([GET, rng.choice([0, 2]), i])
    return L


def gen_history(rng, weights, length=(8, 40), eager=False, **kw):
    g = Gen(rng, weights, **kw)
    g.setup()
    for _ in range(rng.randrange(*length)):
        g.op()
        if eager and g.subs and g.lines[-1][0] == DUMP:
            for h in range(g.subs):
                g.lines.append([RECV, h, 50])
    g.lines.append([DUMP])
    for h in range(g.subs):
        g.lines.append([RECV, h, 2000])
    return g.lines


# ---------------------------------------------------------------- decoding
def dec_opt(t, i):
    if t[i] == 0:
        return None, i + 1
    v, i = E.dec_val(t, i + 1)
    return v, i


def parse_op(l):
    op = l[0]
    d = {"op": op, "name": OPN[op] if 0 <= op < len(OPN) else "?"}
    if 20 <= op <= 34 or op in (60, 61, 62, 63, 64):
        d["p"] = l[1] if len(l) > 1 else -1
        d["raw"] = l
    try:
        if op == PERM:
            n = l[2]
            d.update(exp=l[1], scope=bytes(l[3:3 + n]).decode("utf-8", "replace"))
        elif op == ADD:
            n = l[2]
            d.update(p=l[1], path=bytes(l[3:3 + n]).decode("utf-8", "replace"))
            i = 3 + n
            d.update(dtype=l[i], ctype=l[i + 1], etype=l[i + 2])
            i += 3
            d["min"], i = dec_opt(l, i)
            d["max"], i = dec_opt(l, i)
            d["allowed"], i = dec_opt(l, i)
        elif op == UPDATE:
            d.update(p=l[1], ups=[])
            i = 3
            for _ in range(l[2]):
                u = {"id": l[i], "flags": l[i + 1]}
                i += 2
                if u["flags"] & 1:
                    u["dp"], i = E.dec_val(l, i)
                if u["flags"] & 2:
                    u["target"], i = E.dec_val(l, i)
                d["ups"].append(u)
        elif op == GET:
            d.update(p=l[1], id=l[2])
        elif op == SUB:
            d.update(p=l[1], buf=(l[3] if l[2] else None),
                     entries=[(l[5 + 2 * j], l[6 + 2 * j]) for j in range(l[4])])
        elif op in (RECV,):
            d.update(h=l[1], k=l[2])
        elif op in (DROP, PROVDOWN):
            d.update(h=l[1])
        elif op == PROVIDE:
            d.update(p=l[1], ids=l[3:3 + l[2]])
        elif op == ACTUATE:
            v, _ = E.dec_val(l, 3)
            d.update(p=l[1], id=l[2], value=v)
        elif op == BATCH:
            d.update(p=l[1], changes=[])
            i = 3
            for _ in range(l[2]):
                v, j = E.dec_val(l, i + 1)
                d["changes"].append((l[i], v))
                i = j
    except (IndexError, TypeError):
        d["malformed"] = True
    return d


def show_op(d):
    sv = lambda v: None if v is None else E.show_val(v)
    n = d["name"]
    if n == "PERM":
        return "PERM scope=%r%s" % (d["scope"], " expiring" if d["exp"] else "")
    if n == "ADD":
        return "ADD p%d %s type=%s change=%d entry=%d min=%s max=%s allowed=%s" % (
            d["p"], d["path"], E.DATA_TYPES[d["dtype"]] if 0 <= d["dtype"] < 24 else d["dtype"], d["ctype"], d["etype"],
            sv(d.get("min")), sv(d.get("max")), sv(d.get("allowed")))
    if n == "UPDATE":
        return "UPDATE p%d [%s]" % (d["p"], "; ".join(
            "id%d%s%s%s%s" % (u["id"], " dp=" + sv(u["dp"]) if "dp" in u else "",
                              " target=" + sv(u["target"]) if "target" in u else "",
                              " target:=None" if u["flags"] & 4 and not u["flags"] & 2 else "",
                              " +metadata" if u["flags"] & 8 else "") for u in d["ups"]))
    if n == "GET":
        return "GET p%d id%d" % (d["p"], d["id"])
    if n == "SUB":
        return "SUBSCRIBE p%d buffer=%s entries=%s" % (d["p"], d["buf"], d["entries"])
    if n == "RECV":
        return "RECV sub%d up-to %d" % (d["h"], d["k"])
    if n in ("DROP", "PROVDOWN"):
        return "%s %d" % (n, d["h"])
    if n == "PROVIDE":
        return "PROVIDE p%d ids=%s" % (d["p"], d["ids"])
    if n == "ACTUATE":
        return "ACTUATE p%d id%d %s" % (d["p"], d["id"], sv(d["value"]))
    if n == "BATCH":
        return "BATCH p%d [%s]" % (d["p"], "; ".join("id%d=%s" % (i, sv(v)) for i, v in d["changes"]))
    if "raw" in d:
        return "%s p%d %s" % (n, d["p"], show_api(d["raw"]))
    return n


def _sig(l, i):
    k = l[i]
    if k == 0:
        return "signal_id=absent", i + 1
    if k == 1:
        return "signal_id={}", i + 1
    if k == 2:
        m = l[i + 1]
        return "path=%r" % bytes(l[i + 2:i + 2 + m]).decode("utf-8", "replace")[:40], i + 2 + m
    return "id=%d" % l[i + 1], i + 2


def _oov(l, i):
    if l[i] == 0:
        return "absent", i + 1
    if l[i + 1] == 0:
        return "value-unset", i + 2
    v, j = E.dec_val(l, i + 2)
    return E.show_val(v), j


def _str(l, i):
    m = l[i]
    return bytes(l[i + 1:i + 1 + m]).decode("utf-8", "replace"), i + 1 + m


def show_api(l):
    """readable form of a handler-level operation line"""
    try:
        op = l[0]
        if op == V1GET:
            path, j = _str(l, 3)
            return "view=%d path=%r%s" % (l[2], path[:60], " fields-mask=%d" % l[j] if j < len(l) else "")
        if op in (V1SET, V1STR):
            out, i = [], 3
            for _ in range(l[2]):
                if l[i] == 0:
                    path, i = "<no entry>", i + 1
                else:
                    path, i = _str(l, i + 1)
                fields = l[i]
                v, i = _oov(l, i + 1)
                t, i = _oov(l, i)
                out.append("%s fields=%d value=%s target=%s" % (path, fields, v, t))
            return "[" + "; ".join(out) + "]"
        if op in (V2GET,):
            return _sig(l, 2)[0]
        if op == V2GETS:
            out, i = [], 3
            for _ in range(l[2]):
                s_, i = _sig(l, i)
                out.append(s_)
            return "[" + ", ".join(out) + "]"
        if op in (V2PUB, V2ACT):
            s_, i = _sig(l, 2)
            v, i = _oov(l, i)
            return "%s %s=%s" % (s_, "data_point" if op == V2PUB else "value", v)
        if op == V2BATCH:
            out, i = [], 3
            for _ in range(l[2]):
                s_, i = _sig(l, i)
                v, i = _oov(l, i)
                out.append("%s value=%s" % (s_, v))
            return "[" + "; ".join(out) + "]"
        if op == V2META:
            return "root=%r" % _str(l, 2)[0]
        if op in (SDVGET, SDVMETA):
            out, i = [], 3
            for _ in range(l[2]):
                x, i = _str(l, i)
                out.append(x)
            return str(out)
        if op == SDVSET:
            out, i = [], 3
            for _ in range(l[2]):
                x, i = _str(l, i)
                if l[i] == 0:
                    v, i = "absent", i + 1
                else:
                    vv, i = E.dec_val(l, i + 1)
                    v = E.show_val(vv)
                out.append("%s=%s" % (x, v))
            return "[" + "; ".join(out) + "]"
        if op in (SDVUPD, SDVSTR):
            out, i = [], 3
            for _ in range(l[2]):
                x = l[i]
                if l[i + 1] == 0:
                    v, i = "absent", i + 2
                else:
                    vv, i = E.dec_val(l, i + 2)
                    v = E.show_val(vv)
                out.append("id%d=%s" % (x, v))
            return "[" + "; ".join(out) + "]"
        if op == V1SUB:
            out, i = [], 3
            for _ in range(l[2]):
                path, j = _str(l, i + 1)
                out.append("%r fields=%s" % (path[:60], "+".join(n for b, n in ((1, "value"), (2, "target"), (4, "unit")) if l[i] & b) or "none"))
                i = j
            return "[" + "; ".join(out) + "]"
        if op == V2SUB:
            out, i = [], 4
            for _ in range(l[3]):
                s_, i = _sig(l, i)
                out.append(s_)
            return "buffer_size=%d [%s]" % (l[2], ", ".join(out))
        if op in (SPROV, LPROV):
            out, i = [], 3
            for _ in range(l[2]):
                s_, i = _sig(l, i)
                out.append(s_)
            return "provider stream: ProvideActuation [%s]" % ", ".join(out)
        if op == SPUB:
            out, i = [], 4
            for _ in range(l[3]):
                x = l[i]
                if l[i + 1] == 0:
                    v, i = "value-unset", i + 2
                else:
                    vv, i = E.dec_val(l, i + 2)
                    v = E.show_val(vv)
                out.append("id%d=%s" % (x, v))
            return "provider stream %d: PublishValues [%s]" % (l[2], "; ".join(out))
        if op == SDVREG:
            out, i = [], 3
            for _ in range(l[2]):
                x, i = _str(l, i)
                out.append("%s type=%d change=%d" % (x, l[i], l[i + 1]))
                i += 2
            return "[" + "; ".join(out) + "]"
    except (IndexError, TypeError):
        pass
    return str(l)[:120]


def pretty(lines):
    return [show_op(parse_op(l)) for l in lines]


def split_outputs(lines, out):
    """aligns output lines with operations: returns list of (parsed op, [output lines]) or None"""
    res = []
    i = 0
    for l in lines:
        d = parse_op(l)
        op = d["op"]
        if i >= len(out):
            return None
        if out[i] == [-1] or out[i] == [-77] or out[i] == [-66]:
            res.append((d, [out[i]]))
            i += 1
            continue
        if op == RECV:
            j = i
            while j < len(out) and out[j][0] == 100:
                j += 1
            if j >= len(out) or out[j][0] != 101:
                return None
            res.append((d, out[i:j + 1]))
            i = j + 1
        elif op in (V1GET, V2META, SDVGET, SDVMETA) and len(out[i]) == 2 and (op == V1GET or out[i][0] == 0):
            n = out[i][1]
            res.append((d, out[i:i + 1 + n]))
            i += 1 + n
        elif op == DUMP:
            j = i
            while j < len(out) and out[j][0] in (200, 300):
                j += 1
            if j >= len(out) or out[j] != [399]:
                return None
            res.append((d, out[i:j + 1]))
            i = j + 1
        else:
            res.append((d, [out[i]]))
            i += 1
    return res if i == len(out) else None


def canon_messages(out):
    """subscription messages as they look after a trip through kuksa.val.v1: a datapoint (or target) without a
    value is absent on that wire, and with it its timestamp"""
    res = []
    for l in out or []:
        if not l or l[0] != 100:
            res.append(l)
            continue
        try:
            o, i = [100, l[1]], 2
            for _ in range(l[1]):
                o += [l[i], l[i + 1]]
                i += 2
                if l[i] == 0:
                    o.append(0)
                    i += 1
                else:
                    v, j = E.dec_val(l, i + 1)
                    o += [0] if v[0] == E.NA else l[i:j + 1]
                    i = j + 1
                if l[i] in (0, 1):
                    o.append(l[i])
                    i += 1
                else:
                    v, j = E.dec_val(l, i + 1)
                    o += [1] if v[0] == E.NA else l[i:j + 1]
                    i = j + 1
            res.append(o)
        except (IndexError, TypeError):
            res.append(l)
    return res


def same_handler_subs(lines, m, i):
    """model and implementation agree on a history with handler subscriptions: messages compared in their v1
    wire form (canon_messages); a v1 Subscribe with several entries of which more than one fails may report any
    of their errors (the handler walks a HashMap), so two refusals are not compared by code"""
    cm, ci = canon_messages(m), canon_messages(i)
    if cm == ci:
        return True
    am, ai = split_outputs(lines, cm), split_outputs(lines, ci)
    if am is None or ai is None or len(am) != len(ai):
        return False
    for (d, om), (_d, oi) in zip(am, ai):
        if om == oi:
            continue
        if d["op"] == V1SUB and d["raw"][2] >= 2 and om[0][:1] == [1] and oi[0][:1] == [1]:
            continue
        return False
    return True


def dec_dump(ls):
    ents, provs = {}, {}
    for l in ls:
        if l[0] == 200:
            v, i = E.dec_val(l, 2)
            ts = l[i]
            tgt = None
            if l[i + 1] == 1:
                tv, j = E.dec_val(l, i + 2)
                tgt = (tv, l[j])
            ents[l[1]] = (v, ts, tgt)
        elif l[0] == 300:
            calls = []
            i = 3
            for _ in range(l[2]):
                n = l[i]
                i += 1
                call = []
                for _ in range(n):
                    v, j = E.dec_val(l, i + 1)
                    call.append((l[i], v))
                    i = j
                calls.append(call)
            provs[l[1]] = calls
    return ents, provs


def dec_message(l):
    """[100, n, (id mask dpflag [value ts] tflag [value ts])*]"""
    res = []
    i = 2
    for _ in range(l[1]):
        nid, mask = l[i], l[i + 1]
        i += 2
        dp = tgt = None
        if l[i] == 1:
            v, j = E.dec_val(l, i + 1)
            dp = (v, l[j])
            i = j + 1
        else:
            i += 1
        if l[i] == 0:
            i += 1
        elif l[i] == 1:
            tgt = "cleared"
            i += 1
        else:
            v, j = E.dec_val(l, i + 1)
            tgt = (v, l[j])
            i = j + 1
        res.append({"id": nid, "mask": mask, "dp": dp, "target": tgt})
    return res


# ---------------------------------------------------------------- oracles
def same_bits(a, b):
    return a == b


def ieee_value_eq(a, b):
    """Rust's derived PartialEq on DataValue"""
    if a[0] != b[0]:
        return False
    k = a[0]
    if k in (E.F32, E.F64):
        return V.ieee_eq(k, a[1], b[1])
    if k in (E.F32A, E.F64A):
        sk = E.F32 if k == E.F32A else E.F64
        return len(a[1]) == len(b[1]) and all(V.ieee_eq(sk, x, y) for x, y in zip(a[1], b[1]))
    return a[1] == b[1]


class Principals:
    def __init__(self):
        self.scopes = []      # (parsed scope list, expiring)

    def add(self, scope, exp):
        sc = S.oracle_parse(scope)
        if sc is not None:
            self.scopes.append((sc, bool(exp)))
        return sc is not None

    def can(self, p, action, path, ticked):
        """action in read/actuate/provide/create; returns True/False"""
        if p < 0 or p >= len(self.scopes):
            return False
        sc, exp = self.scopes[p]
        if exp and ticked:
            return False
        acts = S.ACTIONS if action == "read" else [action]
        vals = [S.oracle_covers(pat, path) for (a, pat) in sc if a in acts]
        # a lone '*' (oracle_covers answers None) deliberately matches nothing (glob.rs; the text of C05 says so)
        return any(v is True for v in vals)



def _read_sig(l, i, byname):
    """-> (id or None, next index)"""
    k = l[i]
    if k in (0, 1):
        return None, i + 1
    if k == 2:
        name, j = _str(l, i + 1)
        return byname.get(name), j
    return l[i + 1], i + 2


def _read_oov(l, i):
    """-> ('absent' | (kind, payload)), next"""
    if l[i] == 0:
        return "absent", i + 1
    if l[i + 1] == 0:
        return (E.NA, None), i + 2
    v, j = E.dec_val(l, i + 2)
    return v, j


def normalize(d, o, byname, meta):
    """rewrites a handler-level operation and its output into the equivalent core operations
    (UPDATE / GET / ACTUATE / BATCH / ADD) understood by the monitors; returns a list of (d', o')"""
    l = d.get("raw")
    if l is None:
        return [(d, o)]
    op, p = l[0], l[1]
    first = o[0]
    res = []
    try:
        if op == V2PUB:
            i, j = _read_sig(l, 2, byname)
            v, _ = _read_oov(l, j)
            if i is None or v == "absent":
                return []
            ok = first == [0]
            res.append(({"name": "UPDATE", "op": UPDATE, "p": p, "ups": [{"id": i, "flags": 1, "dp": v}]},
                        [[0] if ok else [1, i, first[0]]]))
        elif op in (SDVUPD, SDVSTR):
            if first[0] != 0:
                return []
            ups, i = [], 3
            for _ in range(l[2]):
                sid = l[i]
                if l[i + 1] == 0:
                    v, i = (E.NA, None), i + 2
                else:
                    v, i = E.dec_val(l, i + 2)
                ups.append({"id": sid, "flags": 1, "dp": v})
            res.append(({"name": "UPDATE", "op": UPDATE, "p": p, "ups": ups}, [first[1:] if first[0] == 0 else [0]]))
            res[-1] = (res[-1][0], [[first[1]] + first[2:]] if first[0] == 0 and len(first) > 1 else [[0]])
        elif op == V1STR:
            # one message of kuksa.val.v1 StreamedUpdate: the elements the handler forwards are one core update;
            # its own per-element errors (no entry, unknown path, target for a non-actuator) come first in the reply
            if first[0] != 0 or len(first) < 2:
                return []
            ups, i, npre, own = [], 3, 0, {}
            for _ in range(l[2]):
                if l[i] == 0:
                    name, i = None, i + 1
                else:
                    name, i = _str(l, i + 1)
                fields = l[i]
                v, i = _read_oov(l, i + 1)
                t, i = _read_oov(l, i)
                sid = byname.get(name) if name is not None else None
                if sid is None or (t != "absent" and meta.get(sid, {}).get("etype") != 2):
                    npre += 1
                    if sid is not None:
                        own[sid] = own.get(sid, 0) + 1
                    continue
                u = {"id": sid, "flags": 0}
                if fields & 1 and v != "absent":
                    u["flags"] |= 1
                    u["dp"] = v
                if fields & 2:
                    if t == "absent":
                        u["flags"] |= 4
                    else:
                        u["flags"] |= 2
                        u["target"] = t
                ups.append(u)
            # the reply is sorted by key: negative keys are the handler's own; so is one (id, 400) for every
            # element that carried a target for the non-actuator id - what remains are the core's errors
            errs = []
            for j in range(first[1]):
                k, c = first[2 + 2 * j], first[3 + 2 * j]
                if k >= 0 and c == 400 and own.get(k, 0) > 0:
                    own[k] -= 1
                    continue
                if k >= 0:
                    errs += [k, c]
            res.append(({"name": "UPDATE", "op": UPDATE, "p": p, "ups": ups, "via": "v1 StreamedUpdate"},
                        [[len(errs) // 2] + errs]))
        elif op in (V1SET, SDVSET):
            if first[0] != 0 or len(first) < 2:
                return []
            ups, i = [], 3
            for _ in range(l[2]):
                if op == V1SET:
                    if l[i] == 0:
                        return []
                    name, i = _str(l, i + 1)
                    fields = l[i]
                    v, i = _read_oov(l, i + 1)
                    t, i = _read_oov(l, i)
                    sid = byname.get(name)
                    if sid is None:
                        continue
                    u = {"id": sid, "flags": 0}
                    if fields & 1 and v != "absent":
                        u["flags"] |= 1
                        u["dp"] = v
                    if fields & 2:
                        if t == "absent":
                            u["flags"] |= 4
                        else:
                            u["flags"] |= 2
                            u["target"] = t
                    ups.append(u)
                else:
                    name, i = _str(l, i)
                    if l[i] == 0:
                        v, i = (E.NA, None), i + 1
                    else:
                        v, i = E.dec_val(l, i + 1)
                    sid = byname.get(name)
                    if sid is None or meta.get(sid, {}).get("etype") != 2:
                        continue
                    ups.append({"id": sid, "flags": 2, "target": v})
            errs = []
            for j in range(first[1]):
                k, c = first[2 + 2 * j], first[3 + 2 * j]
                if k >= 0:
                    errs += [k, c]
            res.append(({"name": "UPDATE", "op": UPDATE, "p": p, "ups": ups}, [[len(errs) // 2] + errs]))
        elif op == V2GET:
            i, _ = _read_sig(l, 2, byname)
            if i is not None and first[0] == 0 and len(first) > 2:
                val = (E.NA, None)
                ts = first[2]
                if first[1] == 1:
                    val, j = E.dec_val(first, 2)
                    ts = first[j]
                res.append(({"name": "GET", "op": GET, "p": p, "id": i, "value_only": True},
                            [[0] + E.val(*val) + [ts, 0]]))
        elif op == V2GETS:
            # a served GetValues is one read per requested signal, in request order
            sids, i = [], 3
            for _ in range(l[2]):
                sid, i = _read_sig(l, i, byname)
                sids.append(sid)
            if first[0] == 0 and len(first) >= 2 and first[1] == len(sids) and None not in sids:
                j = 2
                for sid in sids:
                    val = (E.NA, None)
                    if first[j] == 1:
                        val, j = E.dec_val(first, j + 1)
                    else:
                        j += 1
                    ts = first[j]
                    j += 1
                    res.append(({"name": "GET", "op": GET, "p": p, "id": sid, "value_only": True, "via": "v2 GetValues"},
                                [[0] + E.val(*val) + [ts, 0]]))
        elif op == SDVGET:
            if first[0] == 0:
                for row in o[1:]:
                    if row[0] != 204:
                        continue
                    name, j = _str(row, 1)
                    sid = byname.get(name)
                    if sid is None or row[j] != 1:
                        continue
                    val = (E.NA, None)
                    if row[j + 1] == 1:
                        val, k = E.dec_val(row, j + 2)
                    else:
                        k = j + 2
                    res.append(({"name": "GET", "op": GET, "p": p, "id": sid, "value_only": True, "via": "sdv GetDatapoints"},
                                [[0] + E.val(*val) + [row[k], 0]]))
        elif op == V1GET:
            # every entry of a served Get that carries a value or a target value is a read of that signal
            if len(first) == 2 and first[0] == 0:
                for row in o[1:]:
                    if row[0] != 203:
                        continue
                    sid, j = row[1], 2
                    got_v = got_t = None
                    if row[j] == 1:
                        if row[j + 1] == 1:
                            v_, k = E.dec_val(row, j + 2)
                        else:
                            v_, k = (E.NA, None), j + 2
                        got_v = (v_, row[k])
                        j = k + 1
                    else:
                        j += 1
                    if row[j] == 1:
                        got_t = True
                    if got_v is not None:
                        res.append(({"name": "GET", "op": GET, "p": p, "id": sid, "value_only": True, "via": "v1 Get"},
                                    [[0] + E.val(*got_v[0]) + [got_v[1], 0]]))
                    elif got_t:
                        res.append(({"name": "GET", "op": GET, "p": p, "id": sid, "value_only": True, "target_only": True,
                                     "via": "v1 Get"}, [[0, 0, -9, 0]]))
        elif op in (V2ACT,):
            i, j = _read_sig(l, 2, byname)
            v, _ = _read_oov(l, j)
            if i is None or v == "absent":
                return []
            res.append(({"name": "ACTUATE", "op": ACTUATE, "p": p, "id": i, "value": v},
                        [[0] if first == [0] else [1, first[0]]]))
        elif op == V2BATCH:
            cs, i = [], 3
            for _ in range(l[2]):
                sid, i = _read_sig(l, i, byname)
                v, i = _read_oov(l, i)
                if sid is None or v == "absent":
                    cs = None
                    break
                cs.append((sid, v))
            if cs is None:
                if first == [0]:
                    res.append(({"name": "BATCH", "op": BATCH, "p": p, "changes": []}, [[0]]))
                else:
                    res.append(({"name": "BATCH", "op": BATCH, "p": p, "changes": []}, [[1, first[0]]]))
            else:
                res.append(({"name": "BATCH", "op": BATCH, "p": p, "changes": cs},
                            [[0] if first == [0] else [1, first[0]]]))
        elif op == SDVREG:
            regs, i = [], 3
            for _ in range(l[2]):
                name, i = _str(l, i)
                regs.append((name, l[i], l[i + 1]))
                i += 2
            if first[0] == 0 and len(first) > 1:
                j = 2
                for (name, dt, ct) in regs:
                    m = first[j]
                    sid = first[j + 1 + m]
                    j += 2 + m
                    dtype = {0: 0, 1: 1, 2: 2, 3: 3, 4: 4, 5: 5, 6: 6, 7: 7, 8: 8, 9: 9, 10: 10, 11: 11, 20: 12, 21: 13,
                             22: 14, 23: 15, 24: 16, 25: 17, 26: 18, 27: 19, 28: 20, 29: 21, 30: 22, 31: 23}.get(dt, 0)
                    res.append(({"name": "ADD", "op": ADD, "p": p, "path": name, "dtype": dtype, "ctype": ct, "etype": 0,
                                 "min": None, "max": None, "allowed": None}, [[0, sid]]))
            else:
                res.append(({"name": "RESYNC", "op": -1}, [[0]]))
        elif op in (SPROV, LPROV):
            # an accepted claim through the provider stream is the core claim of the ids, then the resolved paths
            if first[0] != 0:
                return []
            ids, paths_, i = [], [], 3
            for _ in range(l[2]):
                k = l[i]
                sid, i = _read_sig(l, i, byname)
                if sid is not None:
                    (paths_ if k == 2 else ids).append(sid)
            res.append(({"name": "PROVIDE", "op": PROVIDE, "p": p, "ids": ids + paths_, "via": "stream"}, [first]))
        elif op == SPUB:
            ups, i = [], 4
            for _ in range(l[3]):
                sid = l[i]
                if l[i + 1] == 0:
                    v, i = (E.NA, None), i + 2
                else:
                    v, i = E.dec_val(l, i + 2)
                ups.append({"id": sid, "flags": 1, "dp": v})
            if first[0] != 0:
                return []
            res.append(({"name": "UPDATE", "op": UPDATE, "p": p, "ups": ups, "via": "stream"}, [first[1:]]))
        elif op == V1SUB:
            # an accepted handler subscription is the core subscription of the selected signals
            if first[0] != 0:
                return []
            want, i = {}, 3
            for _ in range(l[2]):
                mask = l[i] & 7
                path, i = _str(l, i + 1)
                if len(path.encode()) > 1000 or ".." in path or " " in path:
                    continue                           # over-long and invalid entries are skipped by the handler
                if path == "":
                    ids = sorted(byname.values())      # the empty pattern selects everything
                elif path in byname:
                    ids = [byname[path]]
                else:
                    ids = sorted(x for n, x in byname.items() if n.startswith(path + "."))
                for x in ids:
                    want[x] = want.get(x, 0) | mask    # a signal selected twice: the union of the fields
            res.append(({"name": "SUB", "op": SUB, "p": p, "buf": None, "entries": sorted(want.items()), "via": "v1"},
                        [first]))
        elif op == V2SUB:
            if first[0] != 0:
                return []
            ids, i = [], 4
            for _ in range(l[3]):
                sid, i = _read_sig(l, i, byname)
                if sid is not None and sid not in ids:
                    ids.append(sid)
            res.append(({"name": "SUB", "op": SUB, "p": p, "buf": l[2], "entries": [(i, 1) for i in ids], "via": "v2"},
                        [first]))
    except (IndexError, TypeError, KeyError):
        return []
    return res


KUKSA_DT = [1, 2, 3, 4, 5, 6, 7, 8, 9, 10, 11, 12, 20, 21, 22, 23, 24, 25, 26, 27, 28, 29, 30, 31]
SDV_DT = [0, 1, 2, 3, 4, 5, 6, 7, 8, 9, 10, 11, 20, 21, 22, 23, 24, 25, 26, 27, 28, 29, 30, 31]
KUKSA_ET = {0: 2, 1: 1, 2: 3}      # Sensor, Attribute, Actuator -> kuksa numbers
SDV_ET = {0: 1, 1: 3, 2: 2}


def _same_number(a, b):
    """two scalar values denote the same number (after a widening conversion)"""
    if a is None or b is None:
        return a is None and b is None
    ea, eb = E.exact(*a), E.exact(*b)
    if ea is None or eb is None:
        return a == b
    return ea == eb


def meta_check(d, o, meta):
    """C15: data type, entry type, min, max, allowed reported by an API denote the registered metadata
    (with the documented gaps of each protocol)"""
    fails = []
    op = d["op"]
    if op not in (V1GET, V2META, SDVMETA) or len(o) < 1 or len(o[0]) != 2 or (op != V1GET and o[0][0] != 0):
        return fails
    for l in o[1:]:
        try:
            sid = l[1]
            m = meta.get(sid)
            if m is None or m.get("fuzzy"):
                continue              # registered by a request whose outcome the responses do not spell out
            if l[0] == 201 or l[0] == 202:
                tbl, et = (KUKSA_DT, KUKSA_ET) if l[0] == 201 else (SDV_DT, SDV_ET)
                if l[2] != tbl[m["dtype"]]:
                    fails.append("C15-meta: %s reports data type %d for %s" % (d["name"], l[2], E.DATA_TYPES[m["dtype"]]))
                if l[3] != et[m["etype"]]:
                    fails.append("C15-meta: %s reports entry type %d for entry type %d" % (d["name"], l[3], m["etype"]))
                i = 4
                if l[0] == 202:
                    n = l[5]
                    i = 6 + n
                got = []
                for _ in range(3):
                    if l[i] == 0:
                        got.append(None)
                        i += 1
                    else:
                        v, i = E.dec_val(l, i + 1)
                        got.append(v)
                for nm, g, reg in (("min", got[0], m.get("min")), ("max", got[1], m.get("max")),
                                   ("allowed", got[2], m.get("allowed"))):
                    exp = reg
                    if nm != "allowed" and exp is not None and exp[0] > E.F64:
                        exp = None            # arrays are not a min/max
                    if nm == "allowed" and exp is not None and (exp[0] < E.BOOLA or (l[0] == 202 and exp[0] == E.BOOLA)):
                        exp = None            # sdv has no bool allowed list; scalars are not an allowed list
                    if g != exp:
                        fails.append("C15-meta: %s reports %s=%s for registered %s" % (d["name"], nm, g, reg))
                # the harness's flags: description (and, for v2, unit) reported as registered
                names = ("description", "unit") if l[0] == 201 else ("description",)
                for nm, flag in zip(names, l[i:i + len(names)]):
                    if flag != 1:
                        fails.append("C15-meta: %s reports a %s for %s that is not the registered one" % (d["name"], nm, m["path"]))
            elif l[0] == 203:
                i = 2
                for _ in range(2):          # value, target
                    if l[i] == 0:
                        i += 1
                    else:
                        if l[i + 1] == 0:
                            i += 3
                        else:
                            _, j = E.dec_val(l, i + 2)
                            i = j + 1
                # which parts of the metadata the request names (view, explicit fields): an unnamed part keeps
                # its proto default and is not a statement about the signal
                raw = d["raw"]
                _path, jm = _str(raw, 3)
                mask = raw[jm] if jm < len(raw) else 0
                every = bool(mask & 4) or raw[2] in (3, 20)
                want_dt, want_et, want_r = every or bool(mask & 8), every or bool(mask & 16), every or bool(mask & 32)
                if l[i] == 0 and (want_dt or want_et or want_r):
                    fails.append("C15-meta: V1GET returned %s without the metadata the request names" % m["path"])
                if l[i] == 1:
                    if want_dt and l[i + 1] != KUKSA_DT[m["dtype"]]:
                        fails.append("C15-meta: V1GET reports data type %d for %s" % (l[i + 1], E.DATA_TYPES[m["dtype"]]))
                    if want_et and l[i + 2] != KUKSA_ET[m["etype"]]:
                        fails.append("C15-meta: V1GET reports entry type %d for entry type %d" % (l[i + 2], m["etype"]))
                    if l[-2:] != [1, 1]:
                        fails.append("C15-meta: V1GET reports description / unit of %s other than registered (or unasked)%s" % (
                            m["path"], " [description]" if l[-2] != 1 else " [unit]"))
                    if not want_r:
                        continue
                    fam = l[i + 3]
                    k = V.NAT[m["dtype"]][0]
                    expfam = {E.STR: 1, E.I32: 2, E.I64: 2, E.U32: 3, E.U64: 3, E.F32: 4, E.F64: 4}.get(k, 0)
                    if fam in (2, 3, 4):
                        j = i + 4
                        vals = []
                        for _ in range(2):
                            if l[j] == 0:
                                vals.append(None)
                                j += 1
                            else:
                                vals.append(l[j + 1])
                                j += 2
                        wk = {2: E.I64, 3: E.U64, 4: E.F64}[fam]
                        for nm, g in (("min", vals[0]), ("max", vals[1])):
                            reg = m.get(nm)
                            if g is not None and not _same_number((wk, g), reg):
                                fails.append("C15-meta: V1GET reports %s=%s for registered %s" % (nm, g, reg))
                        if fam != expfam:
                            fails.append("C15-meta: V1GET reports a restriction of family %d for %s" % (fam, E.DATA_TYPES[m["dtype"]]))
        except (IndexError, KeyError, TypeError):
            fails.append("C15-meta: unreadable metadata line %s" % l[:12])
    return fails


GRPC_CLASS = {5: "NF", 16: "UA", 7: "PD", 3: "IA", 14: "UV", 6: "AE"}
V1_CLASS = {404: "NF", 401: "UA", 403: "PD", 400: "IA"}
SDV_ERR_CLASS = {0: {"NF"}, 1: {"IA"}, 2: {"PD", "UA"}, 4: {"IA"}}
SDV_FAIL_CLASS = {2: {"NF"}, 3: {"PD", "UA"}}
CORE_UPD_CLASS = {1: "NF", 2: "IA", 3: "IA", 4: "IA", 5: "IA", 6: "IA", 7: "PD", 8: "UA"}
CORE_READ_CLASS = {1: "NF", 2: "PD", 3: "UA"}
CORE_ACT_CLASS = {1: "NF", 2: "IA", 3: "IA", 4: "IA", 5: "PD", 6: "UA", 7: "UV", 8: "AE"}
CORE_REG_CLASS = {1: "IA", 2: "PD", 3: "UA"}


class Ctx:
    """what the cause oracle needs to know about the current state"""
    def __init__(self, P, paths, meta, byname, ack, owners, down, ticked, fuzzy=False):
        self.P, self.paths, self.meta, self.byname, self.ack = P, paths, meta, byname, ack
        self.owners, self.down, self.ticked = owners, down, ticked
        # after a registration request that failed half-way the monitor does not know every signal
        self.fuzzy = fuzzy
        self.unknown = {"NF", "?"} if fuzzy else {"NF"}

    def expired(self, p):
        return 0 <= p < len(self.P.scopes) and self.P.scopes[p][1] and self.ticked

    def read_causes(self, p, i):
        if i not in self.paths:
            return set(self.unknown)
        if self.expired(p):
            return {"UA"}
        c = self.P.can(p, "read", self.paths[i], self.ticked)
        return set() if c else ({"PD"} if c is False else {"PD", "?"})

    def value_causes(self, i, v, is_dp):
        m = self.meta[i]
        if is_dp and m["ctype"] != 2 and self.ack.get(i) is not None and ieee_value_eq(v, self.ack[i][0]):
            return set()                      # a repeated value is dropped before validation
        if is_dp and self.ack.get(i) is None:
            return {"?"}
        if v[0] == E.NA:
            return {"IA"} if m.get("allowed") is not None else set()
        d = V.in_domain(m["dtype"], m.get("min"), m.get("max"), m.get("allowed"), v, False)
        d2 = V.in_domain(m["dtype"], m.get("min"), m.get("max"), m.get("allowed"), v, True)
        if d is False:
            return {"IA"}
        if d is True and d2 is True:
            return set()
        return {"IA", "?"}

    def update_causes(self, p, u):
        i = u["id"]
        if i not in self.paths:
            return set(self.unknown)
        out = set()
        if u["flags"] & 8:
            out.add("PD")
        writes = bool(u["flags"] & 7)
        if writes and self.expired(p):
            out.add("UA")
        if not self.expired(p):
            if u["flags"] & 1 and self.P.can(p, "provide", self.paths[i], self.ticked) is not True:
                out.add("PD")
            if u["flags"] & 6 and self.P.can(p, "actuate", self.paths[i], self.ticked) is not True:
                out.add("PD")
        if u["flags"] & 1:
            out |= self.value_causes(i, u["dp"], True)
        if u["flags"] & 2:
            out |= self.value_causes(i, u["target"], False)
        return out

    def actuate_causes(self, p, i, v):
        if i not in self.paths:
            return set(self.unknown)
        out = set()
        if self.expired(p):
            out.add("UA")
        else:
            if self.P.can(p, "read", self.paths[i], self.ticked) is not True or \
                    self.P.can(p, "actuate", self.paths[i], self.ticked) is not True:
                out.add("PD")
        if self.meta[i]["etype"] != 2:
            out.add("IA")
        out |= self.value_causes(i, v, False)
        live = [x for x in self.owners if x[3] and i in x[1]]
        if not live:
            out.add("UV")
        else:
            h, ids, op_, _ = live[0]
            if h in self.down:
                out.add("UV")
            if self.expired(op_):
                out.add("UA")
        return out

    def claimed_cause(self, ids, what):
        """a claim answered 'already exists': some actuator it names must have a registered owner (live, or lost and
        not yet removed by housekeeping); naming an actuator twice in one claim is no such cause"""
        held = [x for x in self.owners if x[3] is not False and set(x[1]) & set(ids)]
        if held:
            return []
        return ["C19-class: %s answered ALREADY_EXISTS although no provider is registered for any actuator it names" % what]

    def signal_causes(self, l, i):
        """causes of a v2 SignalID at token index i -> (causes, id or None, next)"""
        k = l[i]
        if k in (0, 1):
            return {"IA"}, None, i + 1
        if k == 2:
            name, j = _str(l, i + 1)
            if len(name.encode()) > 1000:
                return {"IA", "NF"}, None, j
            sid = self.byname.get(name)
            return (set(), sid, j) if sid is not None else (set(self.unknown), None, j)
        sid = l[i + 1]
        return (set(), sid, i + 2) if sid in self.paths else (set(self.unknown), None, i + 2)


def _judge(name, cls, causes, what):
    if "?" in causes:
        return []
    if cls is None:
        return ["C19-class: %s reports a status outside the documented classes for %s" % (name, what)]
    if isinstance(cls, str):
        cls = {cls}
    if not (cls & causes):
        return ["C19-class: %s reports %s for %s, applicable causes %s" % (name, sorted(cls), what, sorted(causes) or "none")]
    return []


def c19_check(d, o, ctx):
    """class of a reported failure must be among the applicable causes; no cause => served"""
    fails = []
    name = d["name"]
    first = o[0] if o else []
    try:
        if name == "GET" and not d.get("value_only"):
            if first[0] == 1:
                fails += _judge(name, CORE_READ_CLASS.get(first[1]), ctx.read_causes(d["p"], d["id"]), "id %d" % d["id"])
            elif ctx.read_causes(d["p"], d["id"]) - {"?"}:
                pass
        elif name == "UPDATE" and "ups" in d and "raw" not in d:
            errs = {}
            for j in range(first[0]):
                errs.setdefault(first[1 + 2 * j], []).append(first[2 + 2 * j])
            for u in d["ups"]:
                cs = ctx.update_causes(d["p"], u)
                codes = errs.get(u["id"], [])
                n_el = sum(1 for x in d["ups"] if x["id"] == u["id"])
                if n_el > 1:
                    continue
                if codes:
                    fails += _judge(name, CORE_UPD_CLASS.get(codes[0]), cs, "element id %d" % u["id"])
                elif cs and "?" not in cs:
                    fails.append("C19-served: UPDATE element id %d accepted although %s applies" % (u["id"], sorted(cs)))
        elif name == "ACTUATE" and "raw" not in d:
            cs = ctx.actuate_causes(d["p"], d["id"], d["value"])
            if first[0] == 1:
                fails += _judge(name, CORE_ACT_CLASS.get(first[1]), cs, "id %d" % d["id"])
            elif cs and "?" not in cs:
                fails.append("C19-served: ACTUATE id %d accepted although %s applies" % (d["id"], sorted(cs)))
        elif name == "BATCH" and "raw" not in d:
            cs = set()
            for (i, v) in d["changes"]:
                cs |= ctx.actuate_causes(d["p"], i, v)
            if first[0] == 1:
                fails += _judge(name, CORE_ACT_CLASS.get(first[1]), cs, "batch")
            elif cs and "?" not in cs:
                fails.append("C19-served: BATCH accepted although %s applies" % sorted(cs))
        elif name == "PROVIDE" and "raw" not in d:
            if first[:2] == [1, 8]:
                fails += ctx.claimed_cause(d["ids"], "PROVIDE %s" % d["ids"])
        elif "raw" in d and d["raw"][0] in (SPROV, LPROV):
            l = d["raw"]
            if first[:2] == [1, 6]:
                ids, i, ok = [], 3, True
                for _ in range(l[2]):
                    if l[i] in (0, 1):          # an identifier that names nothing is skipped by the handler
                        i += 1
                        continue
                    sid, i = _read_sig(l, i, ctx.byname)
                    if sid is None:
                        ok = False
                    else:
                        ids.append(sid)
                if ok and not ctx.fuzzy:
                    fails += ctx.claimed_cause(ids, "ProvideActuationRequest " + show_api(l))
        elif "raw" in d:
            l = d["raw"]
            op, p = l[0], l[1]
            if op == V2GET:
                cs, sid, _ = ctx.signal_causes(l, 2)
                if sid is not None:
                    cs |= ctx.read_causes(p, sid)
                if len(first) == 1 and first[0] != 0:
                    fails += _judge(name, GRPC_CLASS.get(first[0]), cs, show_api(l))
                elif first[0] == 0 and cs and "?" not in cs:
                    fails.append("C19-served: V2GET served although %s applies" % sorted(cs))
            elif op == V2PUB:
                cs, sid, j = ctx.signal_causes(l, 2)
                v, _ = _read_oov(l, j)
                if v == "absent":
                    cs.add("IA")
                elif sid is not None:
                    cs |= ctx.update_causes(p, {"id": sid, "flags": 1, "dp": v})
                if first != [0]:
                    fails += _judge(name, GRPC_CLASS.get(first[0]), cs, show_api(l))
                elif cs and "?" not in cs:
                    fails.append("C19-served: V2PUB served although %s applies" % sorted(cs))
            elif op == V2ACT:
                k = l[2]
                cs, sid, j = ctx.signal_causes(l, 2)
                if k == 3:           # by id: existence is judged by the broker
                    cs, sid = set(), l[3]
                v, _ = _read_oov(l, j)
                if v == "absent":
                    cs.add("IA")
                elif sid is not None:
                    cs |= ctx.actuate_causes(p, sid, v)
                if first != [0]:
                    fails += _judge(name, GRPC_CLASS.get(first[0]), cs, show_api(l))
                elif cs and "?" not in cs:
                    fails.append("C19-served: V2ACT served although %s applies" % sorted(cs))
            elif op == V1GET and len(first) == 2 and first[0] != 0:
                # single request: 400 bad pattern / too long, 404 nothing matched, 401 / 403 permission
                cls = V1_CLASS.get(first[0])
                if cls is None:
                    fails.append("C19-class: V1GET reports code %d" % first[0])
                elif cls in ("PD", "UA"):
                    exp = ctx.expired(p)
                    if (cls == "UA") != exp:
                        fails.append("C19-class: V1GET reports %d for a token that is %s" % (first[0], "expired" if exp else "not expired"))
                elif cls in ("NF", "IA") and not ctx.fuzzy:
                    # a plain path (no wildcard) that names a registered signal or a branch with signals below it
                    # is neither unknown nor malformed: "not found" / "bad request" is not an applicable cause
                    path, _ = _str(l, 3)
                    plain = path and "*" not in path and len(path.encode()) <= 1000 and all(
                        sg and not any(ch in UNI_WS or ch in ":" for ch in sg) for sg in path.split("."))
                    if plain and "." in path and (path in ctx.byname or any(n.startswith(path + ".") for n in ctx.byname)):
                        fails.append("C19-class: V1GET of the existing %s %s reports %d" % (
                            "signal" if path in ctx.byname else "branch", path, first[0]))
            elif op in (V1SET, V1STR, SDVSET, SDVUPD, SDVSTR) and first and first[0] == 0 and len(first) > 1:
                if op in (V1SET, V1STR) and not ctx.fuzzy:
                    # "not found" is the class of an unknown signal only: an element whose path names a registered
                    # signal may not be answered 404 (keys -(index+1) are the handler's own per-element answers)
                    names, i = [], 3
                    for _ in range(l[2]):
                        if l[i] == 0:
                            names.append(None)
                            i += 1
                        else:
                            nm, i = _str(l, i + 1)
                            names.append(nm)
                        i += 1                      # fields
                        _, i = _read_oov(l, i)
                        _, i = _read_oov(l, i)
                    for j in range(first[1]):
                        k, c = first[2 + 2 * j], first[3 + 2 * j]
                        if k < 0 and c == 404 and -k - 1 < len(names) and names[-k - 1] in ctx.byname:
                            fails.append("C19-class: %s answers not_found for the registered signal %s" % (name, names[-k - 1]))
                        if k >= 0 and c == 404 and k in ctx.paths:
                            fails.append("C19-class: %s answers not_found for the registered signal %s" % (name, ctx.paths[k]))
                tbl = V1_CLASS if op in (V1SET, V1STR) else None
                for j in range(first[1]):
                    k, c = first[2 + 2 * j], first[3 + 2 * j]
                    if tbl is not None:
                        if tbl.get(c) is None:
                            fails.append("C19-class: %s reports code %d" % (name, c))
                    elif c not in SDV_ERR_CLASS:
                        fails.append("C19-class: %s reports DatapointError %d" % (name, c))
    except (IndexError, KeyError, TypeError):
        pass
    return fails


# ---------------------------------------------------------------- C07, the positive clauses
def _c07_readable(P, p, path, ticked):
    return P.can(p, "read", path, ticked)


def _c07_open(s, d, k, paths, P, ticked, ack, ack_t):
    """expected first message of a change subscription: the current state of what it can read"""
    s.update(B=(d["buf"] or 0), pending=[], uncertain=False, may_end=False, closed=False, h=None)
    ids = [i for (i, _m) in d["entries"]]
    if len(set(ids)) != len(ids) or any(m & 3 == 0 for (_i, m) in d["entries"]):
        s["uncertain"] = True
        return
    items, vals = {}, {}
    for (i, m) in d["entries"]:
        if i not in paths:
            continue
        c = _c07_readable(P, d["p"], paths[i], ticked)
        if c is None:
            s["uncertain"] = True
            return
        if c:
            items[i] = m & 3
            vals[i] = (ack.get(i) if m & 1 else "skip", ack_t.get(i, "unknown") if m & 2 else "skip")
    s["pending"].append({"k": k, "items": items, "vals": vals, "snapshot": True})


def _c07_expect(subs, chg, unc_ids, k, paths, P, ticked, ack, ack_t):
    """one expected message per subscription a committed request concerns"""
    for s in subs.values():
        if "pending" not in s or s["uncertain"] or s["closed"]:
            continue
        if any(i in s["entries"] for i in unc_ids):
            s["uncertain"] = True
            continue
        exp = 0 <= s["p"] < len(P.scopes) and P.scopes[s["p"]][1]
        items, vals = {}, {}
        hit = False
        for i, m in chg.items():
            w = m & s["entries"].get(i, 0) & 3
            if not w or i not in paths:
                continue
            hit = True
            if exp and ticked:
                break
            c = _c07_readable(P, s["p"], paths[i], ticked)
            if c is None:
                s["uncertain"] = True
                break
            if c:
                items[i] = w
                vals[i] = (ack.get(i) if w & 1 else "skip", ack_t.get(i, "unknown") if w & 2 else "skip")
        if s["uncertain"]:
            continue
        if hit and exp and ticked:
            # the notification finds the token expired: the subscription is removed
            s["may_end"] = True
            s["closed"] = True
            continue
        if items:
            s["pending"].append({"k": k, "items": items, "vals": vals, "snapshot": False})


def _c07_match(msg, e):
    got = {n["id"]: n["mask"] & 3 for n in msg}
    if len(got) != len(msg) or got != e["items"]:
        return False
    for n in msg:
        for fld in ("dp", "target"):
            x = n[fld]
            if x and x != "cleared":
                if e["snapshot"] and x[1] >= e["k"]:
                    return False
                if not e["snapshot"] and x[1] != e["k"]:
                    return False
    return True


def _c07_recv(s, d, o, ticked, P):
    """what one RECV hands over is a contiguous run of the committed changes still to be delivered
    (tokio's broadcast ring only ever skips the oldest), ending at the newest when the reader drains,
    and never skipping one of the newest buffer_size+1.  Messages without a timestamp (a cleared
    target) can be ambiguous, so the set of possible read positions is tracked."""
    fails = []
    if "pending" not in s or s["uncertain"]:
        return fails
    h = d["h"]
    status = o[-1]
    msgs = [dec_message(ml) for ml in o[:-1]]
    exp_all = s["pending"]
    offs = s.setdefault("offs", {0})
    drained = len(msgs) < d["k"]
    shapes = [[(n["id"], n["mask"]) for n in m] for m in msgs]
    keep = s["B"] + 1
    nxt = {}
    shape_ok = newest_bad = None
    for off in sorted(offs):
        pend = exp_all[off:]
        if len(msgs) > len(pend):
            continue
        cands = [len(pend) - len(msgs)] if drained else range(0, len(pend) - len(msgs) + 1)
        for a in cands:
            if all(_c07_match(m, pend[a + j]) for j, m in enumerate(msgs)):
                shape_ok = True
                if a > max(0, len(pend) - keep):
                    if newest_bad is None:
                        newest_bad = (len(pend), a - max(0, len(pend) - keep))
                    continue
                nxt.setdefault(off + a + len(msgs), []).append(off + a)
    if not nxt:
        pend = exp_all[min(offs):]
        if shape_ok and newest_bad:
            fails.append("C07-newest: sub%d (buffer_size %d) had %d messages to read and lost %d of the newest %d" % (
                h, s["B"], newest_bad[0], newest_bad[1], keep))
        elif len(msgs) > len(pend):
            fails.append("C07-order: sub%d received %d messages %s, only %d committed changes were still to be "
                         "delivered" % (h, len(msgs), shapes[:4], len(pend)))
        else:
            fails.append("C07-order: sub%d received %s, which is not a run of the committed changes still to be "
                         "delivered %s%s" % (h, shapes[:4], [(e["k"], sorted(e["items"].items())) for e in pend[-6:]],
                                             " ending at the newest" if drained else ""))
        s["uncertain"] = True
        return fails
    starts = sorted({a for l in nxt.values() for a in l})
    if len(starts) == 1:
        for j, msg in enumerate(msgs):
            e = exp_all[starts[0] + j]
            for n in msg:
                vdp, vt = e["vals"][n["id"]]
                if vdp in ("skip", None) or n["dp"] is None:
                    continue
                if e["snapshot"] and (not same_bits(n["dp"][0], vdp[0]) or n["dp"][1] != vdp[1]):
                    fails.append("C07-snapshot: sub%d's first message carries %s@%d for id %d, the current value is "
                                 "%s@%d" % (h, E.show_val(n["dp"][0]), n["dp"][1], n["id"], E.show_val(vdp[0]), vdp[1]))
                if not e["snapshot"] and vdp[1] == e["k"] and not same_bits(n["dp"][0], vdp[0]):
                    fails.append("C07-value: sub%d was sent %s for id %d, the committed value is %s" % (
                        h, E.show_val(n["dp"][0]), n["id"], E.show_val(vdp[0])))
    s["offs"] = set(nxt)
    expired = ticked and 0 <= s["p"] < len(P.scopes) and P.scopes[s["p"]][1]
    if len(status) >= 3 and status[2] == 1 and not (s["may_end"] or expired):
        fails.append("C07-ended: the stream of sub%d ended without disconnect, token expiry or shutdown" % h)
    return fails


def monitor(lines, out, props):
    """property monitors over an implementation trace; `props` selects the clauses to evaluate.
    Returns a list of 'clause: text' strings."""
    al = split_outputs(lines, out)
    if al is None:
        return ["malformed-output: implementation output does not align with the operations"]
    fails = []
    P = Principals()
    paths = {}       # id -> path
    meta = {}        # id -> parsed ADD
    ticked = False
    last = ({}, {})  # last dump (entries, providers)
    ack = {}         # id -> (value, ts)       expected current value from acknowledgements only
    ack_t = {}       # id -> (value or None, ts) or None   expected target
    owners = []      # (handle, ids, principal, alive)
    subs = {}        # handle -> dict(entries, p, msgs)
    nsub = 0
    nprov = 0
    next_id = 0
    pend = None      # (op index, parsed op, output) of the last mutating op, judged at the next DUMP
    pend_group = None
    _down = set()
    byname = {}
    rereg = []       # (id, dumped state before, principal) of re-registrations, judged at the next DUMP
    resynced = False
    expanded = []
    for k, (d, o) in enumerate(al, 1):
        expanded.append((k, d, o))
    for (k, d0, o0) in expanded:
      if o0 and o0[0] == [-77]:
        fails.append("panic: %s panicked" % show_op(d0))
        continue
      if "raw" in d0:
        fails += meta_check(d0, o0, meta)
      if o0 and o0[0] not in ([-1], [-66]) and d0["name"] not in ("DUMP", "RECV", "PERM"):
        fails += c19_check(d0, o0, Ctx(P, paths, meta, byname, ack, owners, _down, ticked, fuzzy=resynced))
      for (d, o) in normalize(d0, o0, byname, meta):
          name = d["name"]
          if name == "RESYNC":
              next_id = None
              resynced = True
              continue
          if o[0] == [-77]:
              fails.append("panic: %s panicked" % show_op(d))
              continue
          if o[0] == [-66]:
              return fails + ["timing: the expiry instant could not be placed (machine too slow?)"]
          if o[0] == [-1]:
              continue
          if name == "PERM":
              ok = P.add(d["scope"], d["exp"])
              if ok != (o[0] == [1]):
                  fails.append("C05-claim: scope %r %s" % (d["scope"], "accepted" if o[0] == [1] else "rejected"))
          elif name == "TICK":
              ticked = True
          elif name == "ADD":
              r = o[0]
              if r[0] == 0:
                  i = r[1]
                  if i in paths and paths[i] != d["path"]:
                      fails.append("C16-identity: id %d given to %s and to %s" % (i, paths[i], d["path"]))
                  known = [j for j, pth in paths.items() if pth == d["path"]]
                  if known and known[0] != i:
                      fails.append("C16-identity: path %s has ids %d and %d" % (d["path"], known[0], i))
                  if known and known[0] == i and i in last[0]:
                      rereg.append((i, last[0][i], d["p"]))
                  if not known:
                      # after a registration request whose outcome the reply does not spell out (sdv RegisterDatapoints
                      # answered with an error: the entries before the offending one stay registered) a path that looks
                      # new may carry an id that request handed out
                      # new may carry an id that request handed out, and a new one may lie beyond ids it consumed: from then
                      # on the oracle cannot predict ids (model and implementation are still compared id by id)
                      if next_id is not None and i != next_id and not resynced:
                          fails.append("C16-ids: new signal got id %d, expected %d (refusals must not consume ids)" % (i, next_id))
                      next_id = i + 1 if next_id is None or i >= next_id else next_id
                      paths[i] = d["path"]
                      byname[d["path"]] = i
                      meta[i] = dict(d, fuzzy=True) if resynced else d
                      # after a registration request whose outcome the responses do not spell out, a path that
                      # looks new may have been registered by that earlier request: its timestamp is unknown
                      ack[i] = ((0, None), k) if not resynced else None
                      ack_t[i] = None
                      c = P.can(d["p"], "create", d["path"], ticked)
                      if c is False:
                          fails.append("C04-create: p%d registered %s without create permission" % (d["p"], d["path"]))
                      # a valid dotted path: non-empty segments without whitespace (any Unicode White_Space
                      # character), ':' or '*'
                      seg_ok = all(s and not any(ch in UNI_WS or ch in ":*" for ch in s) for s in d["path"].split("."))
                      if not seg_ok:
                          fails.append("C16-name: invalid name %r was registered" % d["path"])
                      if d.get("allowed") is not None and d["allowed"][0] != V.ARR[V.NAT[d["dtype"]][0]]:
                          fails.append("C16-meta: allowed list of kind %s registered for %s" % (
                              E.KIND_NAMES[d["allowed"][0]], E.DATA_TYPES[d["dtype"]]))
          elif name == "UPDATE":
              r = o[0]
              errlist = [(r[1 + 2 * j], r[2 + 2 * j]) for j in range(r[0])]
              nerr, nel = {}, {}
              for (i, _c) in errlist:
                  nerr[i] = nerr.get(i, 0) + 1
              for u in d["ups"]:
                  nel[u["id"]] = nel.get(u["id"], 0) + 1
              chg, unc_ids = {}, set()           # C07: id -> mask of fields this request changed
              for u in d["ups"]:
                  i = u["id"]
                  if nerr.get(i, 0) == nel[i]:
                      continue                      # every element addressing this id was rejected
                  if nerr.get(i, 0) > 0:
                      # some but not all elements for this id were rejected: the response does not say which
                      ack[i] = None
                      ack_t[i] = "unknown"
                      unc_ids.add(i)
                      continue
                  i = u["id"]
                  if i not in paths:
                      continue
                  if "dp" in u:
                      cont = meta[i]["ctype"] == 2
                      if cont:
                          chg[i] = chg.get(i, 0) | 1
                      elif ack.get(i) is None:
                          unc_ids.add(i)
                      elif not ieee_value_eq(u["dp"], ack[i][0]):
                          chg[i] = chg.get(i, 0) | 1
                      if ack.get(i) is None:
                          pass
                      elif (not cont) and ieee_value_eq(u["dp"], ack[i][0]) and u["dp"] != ack[i][0]:
                          fails.append("C15-bits: accepted write of %s to the non-continuous signal %s is dropped because "
                                       "it compares equal to the stored %s; readers keep seeing the old bits"
                                       % (E.show_val(u["dp"]), paths[i], E.show_val(ack[i][0])))
                      elif cont or not ieee_value_eq(u["dp"], ack[i][0]):
                          ack[i] = (u["dp"], k)
                      if P.can(d["p"], "provide", paths[i], ticked) is False:
                          fails.append("C04-provide: p%d changed the value of %s without provide permission" % (d["p"], paths[i]))
                      if u["dp"][0] != E.NA:
                          m = meta[i]
                          if V.in_domain(m["dtype"], m.get("min"), m.get("max"), m.get("allowed"), u["dp"], False) is False:
                              fails.append("C02-stored: %s accepted %s outside its domain" % (paths[i], E.show_val(u["dp"])))
                  if u["flags"] & 6:
                      chg[i] = chg.get(i, 0) | 2
                  if u["flags"] & 2:
                      if ack_t.get(i) != "unknown":
                          ack_t[i] = (u["target"], k)
                      if P.can(d["p"], "actuate", paths[i], ticked) is False:
                          fails.append("C04-actuate: p%d set the target of %s without actuate permission" % (d["p"], paths[i]))
                  elif u["flags"] & 4:
                      if ack_t.get(i) != "unknown":
                          ack_t[i] = None
                      if P.can(d["p"], "actuate", paths[i], ticked) is False:
                          fails.append("C04-actuate: p%d cleared the target of %s without actuate permission" % (d["p"], paths[i]))
              _c07_expect(subs, chg, unc_ids, k, paths, P, ticked, ack, ack_t)
              # a notification that fails (reader gone, token expired) makes update_entries run the
              # housekeeping at once: providers that are down or expired may have lost their claims
              gone_reader = any((s_.get("dropped") or (ticked and 0 <= s_["p"] < len(P.scopes) and P.scopes[s_["p"]][1]))
                                and any(m_ & s_["entries"].get(i_, 0) & 3 for i_, m_ in chg.items())
                                for s_ in subs.values())
              if gone_reader:
                  owners = [(h, ids, p, (None if alive and (h in _down or (0 <= p < len(P.scopes) and P.scopes[p][1] and ticked))
                                         else alive)) for (h, ids, p, alive) in owners]
          elif name == "GET":
              r = o[0]
              if r[0] == 0 and d["id"] in paths:
                  if P.can(d["p"], "read", paths[d["id"]], ticked) is False:
                      fails.append("C03-get: p%d read %s without read permission%s" % (
                          d["p"], paths[d["id"]], " (token expired)" if ticked else ""))
                  v, i = E.dec_val(r, 1)
                  exp = None if d.get("target_only") else ack.get(d["id"])
                  if exp and (not same_bits(v, exp[0]) or r[i] != exp[1]):
                      fails.append("C01-read: %s reads %s@%d, last acknowledged write is %s@%d" % (
                          paths[d["id"]], E.show_val(v), r[i], E.show_val(exp[0]), exp[1]))
          elif name == "SUB":
              if o[0][0] == 0:
                  subs[o[0][1]] = {"entries": dict(d["entries"]), "p": d["p"], "k": k, "msgs": 0}
                  _c07_open(subs[o[0][1]], d, k, paths, P, ticked, ack, ack_t)
          elif name == "SHUTDOWN":
              for s_ in subs.values():
                  s_["may_end"] = True
                  s_["closed"] = True
              new = []
              for (h, ids, p, alive) in owners:
                  new.append((h, ids, p, False))
              owners = new
          elif name == "RECV":
              s = subs.get(d["h"])
              if s is not None:
                  fails += _c07_recv(s, d, o, ticked, P)
              for ml in o[:-1]:
                  msg = dec_message(ml)
                  if s is None:
                      continue
                  s["msgs"] += 1
                  first = s["msgs"] == 1
                  tss = set()
                  for n in msg:
                      if n["id"] not in s["entries"]:
                          fails.append("C07-foreign: sub%d got a notification for unsubscribed id %d" % (d["h"], n["id"]))
                          continue
                      mask = s["entries"][n["id"]]
                      if (n["dp"] and not mask & 1) or (n["target"] and not mask & 2):
                          fails.append("C07-field: sub%d got an unsubscribed field of id %d" % (d["h"], n["id"]))
                      for fld in ("dp", "target"):
                          x = n[fld]
                          if x and x != "cleared":
                              tss.add(x[1])
                              pth = paths.get(n["id"])
                              if pth and P.can(s["p"], "read", pth, False) is False:
                                  fails.append("C03-notify: sub%d (p%d) was sent the %s of %s without read permission" % (
                                      d["h"], s["p"], fld, pth))
                              if pth and P.scopes and s["p"] < len(P.scopes) and 0 <= s["p"] and P.scopes[s["p"]][1] \
                                      and ticked and x[1] > _tick_index(al):
                                  fails.append("C03-expired: sub%d was sent a value written after its token expired" % d["h"])
                  if not first and not msg:
                      fails.append("C07-empty: sub%d got an empty change message" % d["h"])
          elif name == "PROVIDE":
              if o[0] == [1, 8]:
                  holders = [x for x in owners if set(x[1]) & set(d["ids"])]
                  if not holders and not resynced:
                      fails.append("C04-denied-effect: claim of %s refused as already existing although no accepted claim ever "
                                   "named any of them: a refused claim has left something in the provider registry" % d["ids"])
                      fails.append("C10-refused: claim of %s refused as already existing although no provider is registered "
                                   "for any of them (a refused or unauthorised claim registers nothing)" % d["ids"])
                  if holders and all(x[3] is False for x in holders):
                      fails.append("C10-release: claim of %s refused as already existing although every earlier owner "
                                   "was released by housekeeping" % d["ids"])
              if o[0][0] == 0:
                  live = [x for x in owners if x[3]]
                  for (h, ids, p, _) in live:
                      both = set(ids) & set(d["ids"])
                      if both:
                          fails.append("C10-overlap: claim of %s accepted while provider %d owns %s" % (
                              d["ids"], h, sorted(both)))
                  for i in d["ids"]:
                      if i in paths and P.can(d["p"], "actuate", paths[i], ticked) is False:
                          fails.append("C04-claim: p%d claimed %s without actuate permission" % (d["p"], paths[i]))
                  owners.append((o[0][1], list(d["ids"]), d["p"], True))
          elif name in ("ACTUATE", "BATCH"):
              if pend is not None:
                  # several actuations before the next dump (a provider that reads lazily): judged as a group
                  pend_group = (pend_group or [pend]) + [(k, d, o[0])]
              pend = (k, d, o[0])
          elif name in ("CLEANUP", "SHUTDOWN"):
              for s_ in subs.values():
                  if ticked and 0 <= s_["p"] < len(P.scopes) and P.scopes[s_["p"]][1]:
                      s_["may_end"] = True
                      s_["closed"] = True
              # providers that are down/expired lose their claims; on shutdown everybody does
              new = []
              for (h, ids, p, alive) in owners:
                  gone = name == "SHUTDOWN" or h in _down or \
                      (0 <= p < len(P.scopes) and P.scopes[p][1] and ticked)
                  new.append((h, ids, p, alive and not gone))
              owners = new
          elif name == "DROP":
              if d["h"] in subs:
                  subs[d["h"]]["dropped"] = True
          elif name == "PROVDOWN":
              if any(x[0] == d["h"] for x in owners):
                  _down.add(d["h"])
          elif name == "DUMP":
              ents, provs = dec_dump(o)
              for (i, snap, who) in rereg:
                  if i in ents and ents[i] != snap:
                      for tag in ("C16", "C04"):
                          fails.append("%s-rereg: registering the existing path %s again (p%d) changed its stored state "
                                       "from %s to %s" % (tag, paths.get(i), who, snap, ents[i]))
              rereg = []
              # C01: stored state is exactly the fold of acknowledgements
              for i, (v, ts, tgt) in ents.items():
                  exp = ack.get(i)
                  if exp and (not same_bits(v, exp[0]) or ts != exp[1]):
                      fails.append("C01-state: %s holds %s@%d, last acknowledged write is %s@%d" % (
                          paths.get(i), E.show_val(v), ts, E.show_val(exp[0]), exp[1]))
                  et = ack_t.get(i)
                  got = None if tgt is None else (tgt[0], tgt[1])
                  if i in ack_t and et != "unknown" and got != et:
                      fails.append("C01-target: %s target is %s, last acknowledged is %s" % (paths.get(i), got, et))
              # C09: judge the last actuation against the inbox growth
              if pend_group:
                  fails += _judge_actuation_group(pend_group, last[1], provs)
                  pend, pend_group = None, None
              if pend:
                  fails += _judge_actuation(pend, last[1], provs, owners, paths, meta, P, ticked, _down)
                  pend = None
              last = (ents, provs)
    return [f for f in fails if not props or f.split("-")[0] in props or f.split(":")[0] in ("panic", "timing", "malformed-output")]


def _tick_index(al):
    for k, (d, o) in enumerate(al, 1):
        if d["name"] == "TICK":
            return k
    return 10**9


def _judge_actuation_group(pends, before, after):
    """several actuations between two dumps: what the providers received in between is exactly the requests of
    the operations that succeeded, each once (a failed operation forwards nothing, so anything beyond is its)"""
    fails = []
    delivered = []
    for h, calls in after.items():
        old = before.get(h, [])
        if calls[:len(old)] != old:
            fails.append("C09-inbox: provider %d's earlier requests changed" % h)
        delivered += [c for call in calls[len(old):] for c in call]
    want = []
    for (_k, d, res) in pends:
        if res[0] == 0:
            want += [(d["id"], d["value"])] if d["name"] == "ACTUATE" else list(d["changes"])
    w = sorted((i, repr(v)) for i, v in want)
    g = sorted((i, repr(v)) for i, v in delivered)
    if w != g:
        extra = [x for x in g if x not in w]
        missing = [x for x in w if x not in g]
        failed = [d["name"] for (_k, d, res) in pends if res[0] != 0]
        if extra and failed:
            fails.append("C09-all-or-nothing: %s failed, yet requests beyond those of the successful operations were forwarded: %s" % (
                "/".join(failed), extra[:4]))
        else:
            fails.append("C09-exactly-once: %d operations, %d succeeded; not forwarded: %s; forwarded without a successful request: %s" % (
                len(pends), len(pends) - len(failed), missing[:4], extra[:4]))
    return fails


def _judge_actuation(pend, before, after, owners, paths, meta, P, ticked, down=()):
    k, d, res = pend
    fails = []
    changes = [(d["id"], d["value"])] if d["name"] == "ACTUATE" else d["changes"]
    new = {}
    for h, calls in after.items():
        old = before.get(h, [])
        if calls[:len(old)] != old:
            fails.append("C09-inbox: provider %d's earlier requests changed" % h)
        new[h] = [c for call in calls[len(old):] for c in call]
    delivered = [(h, c) for h, cs in new.items() for c in cs]
    if res[0] != 0:
        if delivered:
            fails.append("C09-all-or-nothing: %s failed with code %d but %d request(s) were forwarded: %s" % (
                d["name"], res[1], len(delivered), [(h, i, E.show_val(v)) for h, (i, v) in delivered][:4]))
        return fails
    want = sorted((i, repr(v)) for i, v in changes)
    got = sorted((i, repr(v)) for h, (i, v) in delivered)
    if want != got:
        fails.append("C09-exactly-once: %s succeeded, requested %s, forwarded %s" % (d["name"], want[:4], got[:4]))
    for i, _v in changes:
        own = [x for x in owners if x[3] is not False and i in x[1]]
        if own and all(x[0] in down or (0 <= x[2] < len(P.scopes) and P.scopes[x[2]][1] and ticked) for x in own):
            fails.append("C10-lost: %s of id %d succeeded although its provider %d is %s" % (
                d["name"], i, own[0][0], "disconnected" if own[0][0] in down else "past its token's expiry"))
        if not own:
            fails.append("C10-lost: %s of id %d succeeded although no provider is registered for it" % (d["name"], i))
    for h, (i, v) in delivered:
        own = [x for x in owners if x[0] == h]
        if not own or i not in own[0][1]:
            fails.append("C09-owner: request for id %d reached provider %d which did not claim it" % (i, h))
        elif h in down or (0 <= own[0][2] < len(P.scopes) and P.scopes[own[0][2]][1] and ticked):
            fails.append("C10-lost: %s of id %d succeeded and was forwarded to provider %d, which is %s" % (
                d["name"], i, h, "disconnected" if h in down else "past its token's expiry"))
        if i in paths:
            if P.can(d["p"], "actuate", paths[i], ticked) is False:
                fails.append("C04-actuate: p%d actuated %s without actuate permission" % (d["p"], paths[i]))
                fails.append("C09-permission: the request of p%d for %s reached provider %d although the caller's "
                             "actuate permission does not cover it" % (d["p"], paths[i], h))
            m = meta[i]
            if m["etype"] != 2:
                fails.append("C09-actuator: %s is not an actuator but an actuation was forwarded" % paths[i])
            if v[0] != E.NA and V.in_domain(m["dtype"], m.get("min"), m.get("max"), m.get("allowed"), v, False) is False:
                fails.append("C02-forwarded: %s forwarded to a provider outside the domain of %s" % (E.show_val(v), paths[i]))
        else:
            fails.append("C09-unknown: request for unknown id %d was forwarded" % i)
    return fails

"""Decision logic of the concurrency stage (DESIGN.md sections 4.2 and 5): lock-trace correspondence,
lock-site inventory, schedule search on the real futures."""
from . import common as C
from . import conc


def stage(pid, focus, kinds, tier, seed, theorems, check_traces=True):
    """returns (violations, extra evidence); prints VIOLATION lines"""
    violations = 0
    extra = {}
    broken = []
    if check_traces:
        diffs, rows = conc.trace_correspondence()
        problems, nsites = conc.site_inventory()
        extra["lock_traces_compared"] = len(rows)
        extra["lock_trace_differences"] = len(diffs)
        extra["lock_sites_inventoried"] = nsites
        extra["lock_trace_samples"] = rows[:3] + rows[5:6] + rows[9:10]
        if diffs:
            broken.append({"what": "lock-trace correspondence K(%s): the recorded lock program of an operation "
                                   "differs from Conc.lock_program" % pid, "differences": diffs})
        if problems:
            broken.append({"what": "lock-site inventory: an acquisition in broker.rs is not instrumented",
                           "problems": problems})
    sets = conc.task_sets(tier, focus)
    if broken and tier == "quick":
        # a correspondence is broken: search harder for a concrete failing schedule
        sets = conc.task_sets("thorough", focus)
    findings, stats = conc.explore(sets, "thorough" if broken else tier, seed, kinds)
    extra.update(stats)
    extra["schedule_violations"] = len(findings)
    if findings:
        f = findings[0]
        rp = C.write_replay(pid, "sched%d" % violations, {
            "property": pid, "kind": "schedule", "tasks": f["spec"], "verdict": f["verdict"],
            "detail": f.get("detail"), "schedule": f.get("schedule"),
            "bad_schedules_in_search": "%s of %s" % (f.get("bad_schedules"), f.get("of")),
            "replay_line": f.get("replay_line"), "also_broken": broken,
            "how_to_replay": "./check %s --replay <this file> polls the same real futures in the same order" % pid})
        print("VIOLATION property=%s replay=%s" % (pid, rp))
        violations += 1
    elif broken:
        rp = C.write_replay(pid, "conc", {
            "property": pid, "kind": "correspondence", "broken": broken,
            "theorems_no_longer_about_the_code": theorems,
            "searched": "%d schedules over %d task sets without finding a failing one"
                        % (stats["schedules_run"], stats["task_sets"])})
        print("VIOLATION property=%s replay=%s no-failing-input-found" % (pid, rp))
        violations += 1
    return violations, extra


def replay(pid, r, kinds):
    """re-runs a recorded schedule on the real futures"""
    if r.get("kind") != "schedule" or not r.get("replay_line"):
        return None
    res = conc.replay(r["replay_line"])
    print("tasks:", r.get("tasks"))
    print("schedule:", r.get("schedule"))
    print("result:", res)
    if res["bad"] and res["verdict"] and res["verdict"][0] in kinds:
        return 1
    print("replay passes on the current tree")
    return 0


def run_conc_property(P, focus, tier, seed, replay_path=None):
    """full check of a property decided by the concurrency stage alone (C08, C11)"""
    import json, time
    t0 = time.time()
    pid = P.PID
    coq = C.coq_property(pid, P.ALLOWED_AXIOMS)
    C.build_model_run()
    rc, out = C.build_harness()
    if rc != 0:
        rp = C.write_replay(pid, "harness_build", {"property": pid, "kind": "correspondence",
                                                    "broken": "harness no longer builds against /repo", "log": out[-3000:]})
        print("VIOLATION property=%s replay=%s no-failing-input-found" % (pid, rp))
        return 1
    if replay_path:
        r = json.load(open(replay_path))
        x = replay(pid, r, P.KINDS)
        if x is None:
            print("replay file names a broken correspondence without a schedule:", r.get("broken"))
            return 0
        if x:
            print("VIOLATION property=%s replay=%s" % (pid, replay_path))
        return x
    violations, extra = stage(pid, focus, P.KINDS, tier, seed, P.THEOREMS)
    if coq["problems"] or coq["discharged"] != coq["obligations"]:
        rp = C.write_replay(pid, "proof", {"property": pid, "kind": "proof", "broken": coq["problems"],
                                            "theorems": coq["theorems"]})
        print("VIOLATION property=%s replay=%s no-failing-input-found" % (pid, rp))
        violations += 1
    cov = {
        "obligations": coq["obligations"], "discharged": coq["discharged"], "checker_cmd": coq["checker_cmd"],
        "trusted_base": ["Coq 8.16.1 kernel (coqc, vm_compute; no native_compute)"]
        + ["axiom (Coq standard library): " + a for a in coq["axioms"]] + list(P.TRUSTED),
        "theorems": coq["theorems"], "proof_problems": coq["problems"],
        "evaluations": extra.get("schedules_run", 0) + extra.get("lock_traces_compared", 0),
        "distinct_nontrivial": extra.get("distinct_schedules", 0),
        "rule": P.RULE, "samples": extra.get("sched_samples", []) + extra.get("lock_trace_samples", []),
        "exhaustive": False,
    }
    cov.update({k: v for k, v in extra.items() if k not in ("sched_samples", "lock_trace_samples")})
    C.write_evidence(pid, {"property_id": pid, "tier": tier, "seed": seed, "level": "proof", "coverage": cov,
                           "assumptions": list(P.ASSUMPTIONS), "wall_s": round(time.time() - t0, 2),
                           "violations": violations})
    return 1 if violations else 0

"""Generic decision procedure of one property check (DESIGN.md section 5)."""
import json, os, random, sys, time
from . import common as C


def _one(binary, fam, lines, tag, env=None):
    out = C.run_sharded(binary, fam, [("x", lines)], tag, shards=1, extra_env=env)
    return out.get("x", [])


def shrink(P, lines, still_fails, budget=400):
    """ddmin over the operation lines of a case; `still_fails(lines)` decides."""
    if not getattr(P, "SHRINK", True) or len(lines) <= 1:
        return lines
    cur = list(lines)
    n = 2
    steps = 0
    while len(cur) >= 2 and steps < budget:
        chunk = max(1, len(cur) // n)
        reduced = False
        for i in range(0, len(cur), chunk):
            cand = cur[:i] + cur[i + chunk:]
            steps += 1
            if cand and still_fails(cand):
                cur = cand
                n = max(n - 1, 2)
                reduced = True
                break
        if not reduced:
            if chunk == 1:
                break
            n = min(len(cur), n * 2)
    return cur


def run_property(P, tier, seed, replay=None):
    t0 = time.time()
    pid = P.PID
    lines_out = []          # stdout lines (VIOLATION / KNOWN-FINDING)
    violations = 0
    notes = []
    env = getattr(P, "ENV", None)

    # ---- 1. proof obligations
    coq = C.coq_property(pid, getattr(P, "ALLOWED_AXIOMS", ()))
    if tier == "thorough" and not coq["problems"]:
        chk = C.coqchk_property(pid, getattr(P, "ALLOWED_AXIOMS", ()))
        coq["checker_cmd"] += " ; " + chk["cmd"] + "  (independent re-check of the compiled cone; axioms of everything " \
                              "loaded: %s)" % (chk["axioms"] or "none")
        coq["problems"] += chk["problems"]
    # ---- 2. builds
    C.build_model_run()
    rc, out = C.build_harness()
    if rc != 0:
        rp = C.write_replay(pid, "harness_build", {
            "property": pid, "kind": "correspondence",
            "broken": "K(%s): the harness no longer builds against /repo's working tree" % pid,
            "log": out[-3000:]})
        print("VIOLATION property=%s replay=%s no-failing-input-found" % (pid, rp))
        _evidence(P, tier, seed, coq, t0, 0, 0, [], {}, 1, ["harness build failed"])
        return 1

    if replay:
        return _replay(P, replay)

    # ---- 3-7. correspondence, monitors, cross-check: once per part (a property may use several families)
    parts = getattr(P, "PARTS", None) or [P]
    rng = random.Random(seed)
    agg = {"cases": 0, "distinct": set(), "hist": {}, "samples": [], "diffs": 0, "fails": 0, "known": set(),
           "cross": 0}
    for part in parts:
        violations += _run_part(P, part, tier, seed, rng, coq, agg)
    # ---- 8. broken obligations
    if coq["problems"] or coq["discharged"] != coq["obligations"]:
        rp = C.write_replay(pid, "proof", {
            "property": pid, "kind": "proof", "broken": coq["problems"],
            "theorems": coq["theorems"],
            "note": "no failing input was found by this run's correspondence and monitor passes"})
        print("VIOLATION property=%s replay=%s no-failing-input-found" % (pid, rp))
        violations += 1

    # ---- 8b. property-specific extra stage (lock traces, schedule search, inventories)
    post_extra = {}
    if hasattr(P, "post"):
        v, post_extra = P.post(tier, seed)
        violations += v
    # ---- 9. evidence
    extra = {"correspondence_differences": agg["diffs"], "monitor_failures": agg["fails"],
             "known_findings_seen": sorted(agg["known"]), "histogram": agg["hist"],
             "coq_crosschecked_cases": agg["cross"]}
    if hasattr(P, "extra_evidence"):
        extra.update(P.extra_evidence(tier))
    extra.update(post_extra)
    _evidence(P, tier, seed, coq, t0, agg["cases"], len(agg["distinct"]), agg["samples"], extra, violations, notes)
    return 1 if violations else 0



def _run_part(P, part, tier, seed, rng, coq, agg):
    """correspondence + monitors + in-Coq cross-check for one family of a property"""
    pid = P.PID
    fam = part.FAM
    env = getattr(part, "ENV", None)
    violations = 0
    cases = part.generate(rng, tier)
    if hasattr(part, "prepare"):
        part.prepare()
    model_out = C.run_sharded(C.MODEL_RUN, getattr(part, "MODEL_FAM", fam), cases, pid + "_m")
    impl_out = C.run_sharded(C.KDB_RUN, fam, cases, pid + "_i", extra_env=env)
    by_id = {str(cid): lines for cid, lines in cases}
    same = getattr(part, "compare", lambda ls, m, i: m == i)
    diffs = [cid for cid in by_id if not same(by_id[cid], model_out.get(cid), impl_out.get(cid))]
    # ---- 4. property monitor on every implementation trace
    fails = []
    for cid, lines in by_id.items():
        for msg in part.monitor(lines, impl_out.get(cid, [])):
            fails.append((cid, msg))
    # ---- 5. extraction cross-check inside Coq
    k = max(3, len(cases) // 100) if tier == "quick" else max(10, len(cases) // 400)
    sample = rng.sample(cases, min(k, len(cases), getattr(part, "CROSS_MAX", 40)))
    ok, xout = C.coq_crosscheck(fam, sample, model_out, pid)
    if not ok:
        coq["problems"].append("vm_compute cross-check of the extracted model failed: " + xout)

    known = [f for f in C.load_known() if f.get("property") == pid and f.get("kind") == "known"]
    seen_known = {}
    reported = set()
    # ---- 6. monitor failures
    for cid, msg in fails:
        kf = part.classify(by_id[cid], impl_out.get(cid, []), msg, known) if hasattr(part, "classify") else None
        if kf is not None:
            seen_known.setdefault(kf["id"], (kf, cid, msg))
            continue
        key = msg.split(":")[0]
        if key in reported:
            continue
        reported.add(key)

        def still(ls, msg=msg):
            o = _one(C.KDB_RUN, fam, ls, pid + "_s", env)
            return any(m.split(":")[0] == msg.split(":")[0] for m in part.monitor(ls, o))
        small = shrink(part, by_id[cid], still)
        o = _one(C.KDB_RUN, fam, small, pid + "_s", env)
        rp = C.write_replay(pid, "f%d_v%d" % (fam, violations), {
            "property": pid, "kind": "monitor", "family": fam, "case": small,
            "readable": part.pretty(small), "impl_trace": o,
            "model_trace": _one(C.MODEL_RUN, getattr(part, "MODEL_FAM", fam), small, pid + "_s"),
            "failed_clause": part.monitor(small, o)})
        print("VIOLATION property=%s replay=%s" % (pid, rp))
        violations += 1
    for fid, (kf, cid, msg) in sorted(seen_known.items()):
        print("KNOWN-FINDING: property=%s %s [%s]" % (pid, kf["what"], fid))
    # ---- 7. correspondence differences not explained by a monitor failure
    failing_ids = {cid for cid, _ in fails}
    unexplained = [c for c in diffs if c not in failing_ids]
    if unexplained:
        cid = unexplained[0]

        def differs(ls):
            return not same(ls, _one(C.MODEL_RUN, getattr(part, "MODEL_FAM", fam), ls, pid + "_s"), _one(C.KDB_RUN, fam, ls, pid + "_s", env))
        small = shrink(part, by_id[cid], differs)
        # search the neighbourhood of the differing case for a concrete property failure
        found = None
        if hasattr(part, "neighbours"):
            for nb in part.neighbours(small, rng):
                o = _one(C.KDB_RUN, fam, nb, pid + "_s", env)
                ms = part.monitor(nb, o)
                if ms:
                    found = (nb, o, ms)
                    break
        if found:
            nb, o, ms = found
            rp = C.write_replay(pid, "f%d_v%d" % (fam, violations), {
                "property": pid, "kind": "monitor", "family": fam, "case": nb,
                "readable": part.pretty(nb), "impl_trace": o, "failed_clause": ms})
            print("VIOLATION property=%s replay=%s" % (pid, rp))
        else:
            rp = C.write_replay(pid, "f%d_k%d" % (fam, violations), {
                "property": pid, "kind": "correspondence", "family": fam, "case": small,
                "readable": part.pretty(small),
                "broken": "K(%s): model and implementation differ on this case (%d of %d cases differ); "
                          "theorems %s are about a model that no longer predicts the code"
                          % (pid, len(unexplained), len(cases), ", ".join(coq["theorems"])),
                "impl_trace": _one(C.KDB_RUN, fam, small, pid + "_s", env),
                "model_trace": _one(C.MODEL_RUN, getattr(part, "MODEL_FAM", fam), small, pid + "_s")})
            print("VIOLATION property=%s replay=%s no-failing-input-found" % (pid, rp))
        violations += 1
    # ---- per-part evidence
    for cid, lines in by_id.items():
        key = part.nontrivial(lines, impl_out.get(cid, []))
        if key is not None:
            agg["distinct"].add((fam, key))
        for h in part.histogram(lines, impl_out.get(cid, [])):
            agg["hist"][h] = agg["hist"].get(h, 0) + 1
    agg["samples"] += [{"family": fam, "case": part.pretty(l), "model": model_out.get(str(c)), "impl": impl_out.get(str(c))}
                       for c, l in cases[:: max(1, len(cases) // 3)][:3]]
    agg["cases"] += len(cases)
    agg["diffs"] += len(diffs)
    agg["fails"] += len(fails)
    agg["known"] |= set(seen_known)
    agg["cross"] += len(sample)
    return violations


def _evidence(P, tier, seed, coq, t0, n, distinct, samples, extra, violations, notes):
    cov = {
        "obligations": max(coq["obligations"], 0),
        "discharged": coq["discharged"],
        "checker_cmd": coq["checker_cmd"] or "make (not reached)",
        "trusted_base": ["Coq 8.16.1 kernel (coqc, vm_compute; no native_compute)"]
        + ["axiom (Coq standard library): " + a for a in coq["axioms"]]
        + list(getattr(P, "TRUSTED", [])),
        "theorems": coq["theorems"],
        "proof_problems": coq["problems"],
        "evaluations": n,
        "distinct_nontrivial": distinct,
        "rule": P.RULE,
        "samples": samples or [{"note": "no case was executed"}],
        "exhaustive": bool(getattr(P, "EXHAUSTIVE", False)),
    }
    cov.update(extra)
    ev = {"property_id": P.PID, "tier": tier, "seed": seed, "level": "proof", "coverage": cov,
          "assumptions": list(getattr(P, "ASSUMPTIONS", [])) + notes,
          "wall_s": round(time.time() - t0, 2), "violations": violations}
    C.write_evidence(P.PID, ev)


def _replay(P, path):
    r = json.load(open(path))
    pid = P.PID
    if r.get("kind") in ("proof",) or "case" not in r:
        print("replay file names a broken obligation/correspondence without an input: %s" % r.get("broken"))
        return 0
    lines = r["case"]
    parts = getattr(P, "PARTS", None) or [P]
    part = next((x for x in parts if x.FAM == r.get("family")), parts[0])
    o = _one(C.KDB_RUN, part.FAM, lines, pid + "_r", getattr(part, "ENV", None))
    m = _one(C.MODEL_RUN, getattr(part, "MODEL_FAM", part.FAM), lines, pid + "_r")
    P = part
    ms = P.monitor(lines, o)
    print("case:", P.pretty(lines))
    print("impl :", o)
    print("model:", m)
    if ms:
        print("monitor:", ms)
        print("VIOLATION property=%s replay=%s" % (pid, path))
        return 1
    if not getattr(P, "compare", lambda ls, a, b: a == b)(lines, m, o):
        print("VIOLATION property=%s replay=%s no-failing-input-found" % (pid, path))
        return 1
    print("replay passes on the current tree")
    return 0

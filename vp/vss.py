"""VSS family (C17): generated VSS documents (JSON text + the tree as tokens for the model) with
the generator's ground truth, single-fault mutations, and the oracle that compares what
parse_vss_from_str / the start-up sequence produced with that ground truth.
Line: json_text n (name node)*   (see coq/Model/Vss.v for `node`)."""
import json as _json
from . import enc as E
from .props import c02 as V

DT_NAMES = ["string", "boolean", "int8", "int16", "int32", "int64", "uint8", "uint16", "uint32", "uint64", "float",
            "double", "string[]", "boolean[]", "int8[]", "int16[]", "int32[]", "int64[]", "uint8[]", "uint16[]",
            "uint32[]", "uint64[]", "float[]", "double[]"]
TYPE_NAMES = ["branch", "sensor", "attribute", "actuator"]
CT_NAMES = ["static", "onchange", "continuous"]
ETYPE_CODE = {1: 0, 2: 1, 3: 2}       # node type -> entry_type code (Sensor 0, Attribute 1, Actuator 2)
RANGE = {2: (-128, 127), 3: (-32768, 32767), 4: (-2**31, 2**31 - 1), 5: (-2**63, 2**63 - 1),
         6: (0, 255), 7: (0, 65535), 8: (0, 2**32 - 1), 9: (0, 2**64 - 1)}
KIND = {0: E.STR, 1: E.BOOL, 2: E.I32, 3: E.I32, 4: E.I32, 5: E.I64, 6: E.U32, 7: E.U32, 8: E.U32, 9: E.U64,
        10: E.F32, 11: E.F64}
NAMES = ["Vehicle", "Cabin", "Door", "DoorCount", "Row1", "Row2", "A", "Ab", "A_b", "a", "B", "Speed", "Body", "X1",
         "Z", "IsOpen", "Seat", "Left", "Right", "ADAS", "Temp"]
FLOATS = ["0.0", "0.5", "1.5", "-1.5", "100.0", "0.1", "2.25", "1e10", "3.4028235e38", "-3.4028235e38", "1e-50",
          "123.456", "16777217.0", "1e300"]
F32_OVERFLOW = ["1e40", "3.5e38", "-1e39", "1e300"]


class Reject(Exception):
    pass


# ---------------------------------------------------------------- JSON values: ("b", bool) ("i", int) ("f", text) ("s", str) ("a", [..]) ("o",)
def jtext(j):
    k = j[0]
    if k == "b":
        return "true" if j[1] else "false"
    if k == "i":
        return str(j[1])
    if k == "f":
        return j[1]
    if k == "s":
        return _json.dumps(j[1])
    if k == "a":
        return "[" + ", ".join(jtext(x) for x in j[1]) + "]"
    return "{\"x\": 1}"


def jnum_class(j):
    """what serde_json makes of a number: ('pos', z) | ('neg', z) | ('float', bits)"""
    if j[0] == "i":
        z = j[1]
        if 0 <= z < 2**64:
            return ("pos", z)
        if -2**63 <= z < 0:
            return ("neg", z)
        return ("float", E.f64_bits(float(z)))
    return ("float", E.f64_bits(float(j[1])))


def jtok(j):
    k = j[0]
    if k == "b":
        return [1, int(j[1])]
    if k in ("i", "f"):
        c, z = jnum_class(j)
        return [2, {"pos": 0, "neg": 1, "float": 2}[c], z]
    if k == "s":
        return [3] + E.s(j[1])
    if k == "a":
        return [4, len(j[1])] + sum((jtok(x) for x in j[1]), [])
    return [5]


# ---------------------------------------------------------------- ground truth: the declared value as a typed value
def f32_round(x):
    import struct
    try:
        return struct.unpack("<I", struct.pack("<f", x))[0]
    except OverflowError:
        return 0x7F800000 if x > 0 else 0xFF800000


def expect_scalar(t, j):
    """the DataValue a declared JSON value denotes for base data type t (0..11); Reject if it does not fit"""
    k = j[0]
    if t == 0:
        if k != "s":
            raise Reject("not a string")
        return (E.STR, j[1])
    if t == 1:
        if k != "b":
            raise Reject("not a boolean")
        return (E.BOOL, j[1])
    if k not in ("i", "f"):
        raise Reject("not a number")
    c, z = jnum_class(j)
    if t in RANGE:
        if c == "float":
            raise Reject("not an integer")
        lo, hi = RANGE[t]
        if not lo <= z <= hi:
            raise Reject("out of range")
        return (KIND[t], z)
    x = float(z) if c != "float" else E.bits_f64(z)
    if t == 11:
        return (E.F64, E.f64_bits(x))
    b = f32_round(x)
    if (b & 0x7F800000) == 0x7F800000:
        raise Reject("does not fit a float")
    return (E.F32, b)


def expect_value(t, j):
    if t >= 12:
        if j[0] != "a":
            raise Reject("not an array")
        base = t - 12
        vs = [expect_scalar(base, x) for x in j[1]]
        return (V.ARR[KIND[base]], [v[1] for v in vs])
    return expect_scalar(t, j)


def expect_single(t, j):
    return expect_scalar(t - 12 if t >= 12 else t, j)


def expect_allowed(t, j):
    if j[0] != "a":
        raise Reject("allowed is not an array")
    base = t - 12 if t >= 12 else t
    return expect_value(base + 12, j)


# ---------------------------------------------------------------- documents
class Node:
    def __init__(self, **kw):
        self.type = kw.get("type")            # 0..3, "bad", None (absent)
        self.desc = kw.get("desc", "d")       # str, None (absent), 5 (a number: invalid)
        self.comment = kw.get("comment")
        self.dtype = kw.get("dtype")          # 0..23, "bad", None
        self.unit = kw.get("unit")
        self.min = kw.get("min")
        self.max = kw.get("max")
        self.allowed = kw.get("allowed")      # json value (array normally), None
        self.ctype = kw.get("ctype")          # 0..2, "bad", None
        self.default = kw.get("default")
        self.children = kw.get("children")    # list of (name, Node) or None
        self.extra = kw.get("extra", False)   # an unknown key (ignored by serde)

    def text(self, ind=0):
        parts = []
        if self.type is not None:
            parts.append('"type": ' + _json.dumps(TYPE_NAMES[self.type] if self.type != "bad" else "signal"))
        if self.desc is not None:
            parts.append('"description": ' + (_json.dumps(self.desc) if isinstance(self.desc, str) else "5"))
        if self.comment is not None:
            parts.append('"comment": ' + _json.dumps(self.comment))
        if self.dtype is not None:
            parts.append('"datatype": ' + _json.dumps(DT_NAMES[self.dtype] if self.dtype != "bad" else "int128"))
        if self.unit is not None:
            parts.append('"unit": ' + _json.dumps(self.unit))
        for key, v in (("min", self.min), ("max", self.max), ("allowed", self.allowed), ("default", self.default)):
            if v is not None:
                parts.append('"%s": %s' % (key, jtext(v)))
        if self.ctype is not None:
            parts.append('"x-kuksa-changetype": ' + _json.dumps(CT_NAMES[self.ctype] if self.ctype != "bad" else "sometimes"))
        if self.extra:
            parts.append('"uuid": "3f4f39b8d8c05c97a6de685282ba74b7"')
        if self.children is not None:
            parts.append('"children": {' + ", ".join(_json.dumps(n) + ": " + c.text() for n, c in self.children) + "}")
        return "{" + ", ".join(parts) + "}"

    def tokens(self):
        def pres(v, enc):
            if v is None:
                return [0]
            if v == "bad" or (enc is None):
                return [1]
            return [2] + enc(v)

        def opt(v, enc):
            return [0] if v is None else [1] + enc(v)
        t = pres(self.type, lambda x: [x])
        t += [0] if self.desc is None else ([2] + E.s(self.desc) if isinstance(self.desc, str) else [1])
        t += opt(self.comment, E.s)
        t += pres(self.dtype, lambda x: [x])
        t += opt(self.unit, E.s)
        t += opt(self.min, jtok) + opt(self.max, jtok)
        if self.allowed is None:
            t += [0]
        elif self.allowed[0] != "a":
            t += [1]
        else:
            t += [2, len(self.allowed[1])] + sum((jtok(x) for x in self.allowed[1]), [])
        t += pres(self.ctype, lambda x: [x])
        t += opt(self.default, jtok)
        if self.children is None:
            t += [0]
        else:
            t += [1, len(self.children)]
            for n, c in self.children:
                t += E.s(n) + c.tokens()
        return t


def doc_line(root):
    """root: list of (name, Node)"""
    text = "{" + ", ".join(_json.dumps(n) + ": " + c.text() for n, c in root) + "}"
    toks = [len(root)]
    for n, c in root:
        toks += E.s(n) + c.tokens()
    return E.s(text) + toks


def good_json(rng, t, single=False):
    """a well-typed declared value for data type t"""
    if t >= 12 and not single:
        return ("a", [good_json(rng, t - 12) for _ in range(rng.randrange(0, 4))])
    if t >= 12:
        t -= 12
    if t == 0:
        return ("s", rng.choice(["a", "abc", "", "SAE_0", "x y", "é"]))
    if t == 1:
        return ("b", rng.random() < 0.5)
    if t in RANGE:
        lo, hi = RANGE[t]
        return ("i", rng.choice([lo, hi, 0 if lo <= 0 else lo, 1, 10, hi - 1, lo + 1, 100 if hi >= 100 else hi]))
    if t == 10:
        return rng.choice([("f", x) for x in FLOATS if x not in ("1e300",)] + [("i", 0), ("i", 100), ("i", -5),
                                                                              ("i", 2**64 - 1)])
    return rng.choice([("f", x) for x in FLOATS] + [("i", 0), ("i", 1000), ("i", -7), ("i", 2**63), ("i", 2**64)])


def bad_candidates(rng, t, single=False):
    """every class of declared value that does not fit data type t"""
    arr = t >= 12 and not single
    base = t - 12 if t >= 12 else t
    c = []
    if arr:
        c += [good_json(rng, base), ("o",)]
        c += [("a", [good_json(rng, base), b]) for b in bad_candidates(rng, base)]
        return c
    c += [("a", [good_json(rng, base)]), ("o",)]
    if base == 0:
        c += [("i", 5), ("b", True)]
    elif base == 1:
        c += [("i", 1), ("s", "true")]
    else:
        c += [("s", "5"), ("b", False)]
        if base in RANGE:
            lo, hi = RANGE[base]
            c += [("i", hi + 1), ("i", lo - 1), ("f", "1.5"), ("f", "1.0"), ("i", 2**64), ("i", 2 * hi + 1),
                  ("i", 65535 if hi < 65535 else 2**32 - 1 if hi < 2**32 - 1 else 2**63 if hi < 2**63 else 2**65)]
        if base == 10:
            c += [("f", x) for x in F32_OVERFLOW] + [("i", 2**200)]
    return c


def bad_json(rng, t, single=False):
    """a declared value that does not fit data type t"""
    return rng.choice(bad_candidates(rng, t, single))


def boundary_values(t):
    """declared values at the edge of data type t (all must load and be carried over exactly)"""
    base = t - 12 if t >= 12 else t
    if base in RANGE:
        lo, hi = RANGE[base]
        return [("i", lo), ("i", hi), ("i", 0 if lo <= 0 else lo)]
    if base == 10:
        return [("f", "3.4028235e38"), ("f", "-3.4028235e38"), ("i", 2**64 - 1), ("f", "1e-50"), ("f", "16777217.0")]
    if base == 11:
        return [("f", "1e300"), ("i", 2**64), ("i", -2**63), ("f", "0.1")]
    if base == 0:
        return [("s", ""), ("s", "\u00e9")]
    return [("b", True), ("b", False)]


def grid_cases(rng):
    """one-leaf documents: every data type x {min, max, allowed, default} x every class of unfitting
    value, and the same with values at the edge of the type"""
    docs = []
    for t in range(24):
        for field in ("min", "max", "allowed", "default"):
            single = field in ("min", "max")
            base = t - 12 if t >= 12 else t
            if field == "allowed":
                bads = [("a", [good_json(rng, base), b]) for b in bad_candidates(rng, base)] + [("i", 1), ("o",)]
                goods = [("a", [b]) for b in boundary_values(t)]
            else:
                bads = bad_candidates(rng, t, single)
                goods = [b if (single or t < 12) else ("a", [b]) for b in boundary_values(t)]
            for kind, vals in (("bad", bads), ("good", goods)):
                for v in vals:
                    leaf = Node(type=2, dtype=t, desc="d")
                    setattr(leaf, field, v)
                    root = [("G", Node(type=0, desc="g", children=[("L", leaf)]))]
                    docs.append((root, "grid-%s-%s" % (kind, field)))
    return docs


def gen_leaf(rng):
    t = rng.randrange(24)
    n = Node(type=rng.choice([1, 2, 3]), dtype=t, desc=rng.choice(["d", "Speed of the vehicle.", ""]))
    if rng.random() < 0.4:
        n.unit = rng.choice(["km/h", "percent", "kg"])
    if rng.random() < 0.2:
        n.comment = "c"
    if rng.random() < 0.4:
        n.min = good_json(rng, t, single=True)
    if rng.random() < 0.4:
        n.max = good_json(rng, t, single=True)
    if rng.random() < 0.3:
        base = t - 12 if t >= 12 else t
        n.allowed = ("a", [good_json(rng, base) for _ in range(rng.randrange(0, 4))])
    if rng.random() < 0.4:
        n.default = good_json(rng, t)
    if rng.random() < 0.3:
        n.ctype = rng.randrange(3)
    n.extra = rng.random() < 0.3
    return n


def gen_tree(rng, depth):
    kids = []
    for name in rng.sample(NAMES, rng.randrange(1, 5)):
        if depth <= 0 or rng.random() < 0.55:
            kids.append((name, gen_leaf(rng)))
        else:
            kids.append((name, Node(type=0, desc="b", children=gen_tree(rng, depth - 1), extra=rng.random() < 0.3)))
    return kids


def all_nodes(root, prefix=""):
    for name, n in root:
        p = prefix + "." + name if prefix else name
        yield p, n
        if n.children is not None:
            yield from all_nodes(n.children, p)


FAULTS = ["leaf-no-datatype", "branch-no-children", "min", "max", "allowed", "default", "bad-type", "no-type",
          "no-description", "bad-description", "bad-datatype", "bad-changetype", "allowed-not-array", "leaf-with-children",
          "branch-with-datatype", "default-on-sensor", "null-min", "empty-branch"]


def inject(rng, root):
    """one single-fault mutation (some are harmless by the rules: they test that nothing else changes)"""
    nodes = list(all_nodes(root))
    leaves = [(p, n) for p, n in nodes if n.type in (1, 2, 3)]
    branches = [(p, n) for p, n in nodes if n.type == 0]
    f = rng.choice(FAULTS)
    if f in ("branch-no-children", "branch-with-datatype", "empty-branch") and not branches:
        f = "leaf-no-datatype"
    if f in ("branch-no-children", "branch-with-datatype", "empty-branch"):
        p, n = rng.choice(branches)
        if f == "branch-no-children":
            n.children = None
        elif f == "empty-branch":
            n.children = []
        else:
            n.dtype = 4
            n.min = ("s", "ignored")
        return f
    p, n = rng.choice(leaves)
    if f == "leaf-no-datatype":
        n.dtype = None
    elif f == "min":
        n.min = bad_json(rng, n.dtype, single=True)
    elif f == "max":
        n.max = bad_json(rng, n.dtype, single=True)
    elif f == "allowed":
        base = n.dtype - 12 if n.dtype >= 12 else n.dtype
        n.allowed = ("a", [good_json(rng, base), bad_json(rng, base)])
    elif f == "allowed-not-array":
        n.allowed = rng.choice([("i", 1), ("o",), ("s", "a")])
    elif f == "default":
        n.default = bad_json(rng, n.dtype)
    elif f == "bad-type":
        n.type = "bad"
    elif f == "no-type":
        n.type = None
    elif f == "no-description":
        n.desc = None
    elif f == "bad-description":
        n.desc = 5
    elif f == "bad-datatype":
        n.dtype = "bad"
    elif f == "bad-changetype":
        n.ctype = "bad"
    elif f == "leaf-with-children":
        n.children = [("Sub", gen_leaf(rng))]
    elif f == "default-on-sensor":
        n.type = 1
        n.default = bad_json(rng, n.dtype)      # not an attribute: the default is not looked at
    elif f == "null-min":
        n.min = None
    return f


def gen_case(rng):
    root = [(rng.choice(["Vehicle", "Other", "V2"]), Node(type=0, desc="root", children=gen_tree(rng, rng.randrange(1, 4))))]
    if rng.random() < 0.2:
        root.append(("Second", gen_leaf(rng)))
    fault = None
    if rng.random() < 0.4:
        fault = inject(rng, root)
    return root, fault


# ---------------------------------------------------------------- ground truth of a document
def ground_truth(root):
    """-> dict path -> expected entry, or raises Reject with the reason"""
    # every node must be a valid entry, wherever it sits
    def walk_all(children):
        for name, n in children:
            if n.type is None or n.type == "bad":
                raise Reject("node without a valid type")
            if not isinstance(n.desc, str):
                raise Reject("node without a description")
            if n.dtype == "bad" or n.ctype == "bad":
                raise Reject("invalid datatype / change type name")
            if n.allowed is not None and n.allowed[0] != "a":
                raise Reject("allowed is not an array")
            if n.children is not None:
                walk_all(n.children)
    walk_all(root)
    out = {}

    def walk(children, prefix):
        for name, n in children:
            p = prefix + "." + name if prefix else name
            if n.type == 0:
                if n.children is None:
                    raise Reject("branch %s without children" % p)
                walk(n.children, p)
                continue
            if n.dtype is None:
                raise Reject("leaf %s without data type" % p)
            t = n.dtype
            e = {"dtype": t, "etype": ETYPE_CODE[n.type],
                 "ctype": n.ctype if n.ctype is not None else (0 if n.type == 2 else 2),
                 "desc": n.desc, "comment": n.comment, "unit": n.unit,
                 "min": expect_single(t, n.min) if n.min is not None else None,
                 "max": expect_single(t, n.max) if n.max is not None else None,
                 "allowed": expect_allowed(t, n.allowed) if n.allowed is not None else None,
                 "default": (expect_value(t, n.default) if n.default is not None else None) if n.type == 2 else None}
            out[p] = e
    walk(root, "")
    return out


# ---------------------------------------------------------------- output decoding and the oracle
def _opt(l, i, dec):
    if l[i] == 0:
        return None, i + 1
    return dec(l, i + 1)


def _str(l, i):
    n = l[i]
    return bytes(l[i + 1:i + 1 + n]).decode("utf-8", "replace"), i + 1 + n


def dec_entry(l):
    path, i = _str(l, 1)
    e = {"dtype": l[i], "etype": l[i + 1], "ctype": l[i + 2]}
    e["desc"], i = _str(l, i + 3)
    e["comment"], i = _opt(l, i, _str)
    e["unit"], i = _opt(l, i, _str)
    for k in ("min", "max", "allowed", "default"):
        e[k], i = _opt(l, i, E.dec_val)
    return path, e


def dec_loaded(l):
    path, i = _str(l, 2)
    v, _ = E.dec_val(l, i)
    return l[1], path, v


def monitor(root, out):
    fails = []
    if not out:
        return ["malformed-output: no output"]
    if out[0] == [-77]:
        return ["panic: loading the document panicked"]
    try:
        gt = ground_truth(root)
        why = None
    except Reject as r:
        gt, why = None, str(r)
    if out[0] == [1]:
        if gt is not None:
            fails.append("C17-accept: a well-formed document was rejected")
        return fails
    if out[0][0] != 0:
        return ["malformed-output: %r" % out[0]]
    if gt is None:
        return ["C17-reject: a malformed document (%s) was loaded" % why]
    ents = dict(dec_entry(l) for l in out if l[0] == 500)
    if set(ents) != set(gt):
        fails.append("C17-leaves: registered %s, the leaves of the document are %s" % (sorted(ents), sorted(gt)))
        return fails
    for p, e in gt.items():
        g = ents[p]
        for k in ("dtype", "etype", "ctype", "desc", "comment", "unit", "min", "max", "allowed", "default"):
            if g[k] != e[k]:
                fails.append("C17-field: %s.%s is %r, declared %r" % (p, k, g[k], e[k]))
    # start-up: ids in path order, value = declared default of an attribute (if it passes the signal's own
    # min/max/allowed), NotAvailable otherwise
    loaded = [dec_loaded(l) for l in out if l[0] == 501]
    bypath = {p: (i, v) for i, p, v in loaded}
    for p, e in gt.items():
        if p not in bypath:
            # registration refused (invalid name / allowed list); not part of this property's claim
            continue
        v = bypath[p][1]
        if e["default"] is None:
            if v != (E.NA, None):
                fails.append("C17-initial: %s has the initial value %s without a declared default" % (p, E.show_val(v)))
        else:
            # exact reading for "must be set", the broker's tolerant float comparison for "must not be set"
            ok = V.in_domain(e["dtype"], e["min"], e["max"], e["allowed"], e["default"], True)
            if ok is False and V.in_domain(e["dtype"], e["min"], e["max"], e["allowed"], e["default"], False) is not False:
                ok = None
            if ok is True and v != e["default"]:
                fails.append("C17-initial: attribute %s starts as %s, declared default %s" % (
                    p, E.show_val(v), E.show_val(e["default"])))
            if ok is False and v != (E.NA, None):
                fails.append("C17-initial: attribute %s starts as %s although its default %s violates its own bounds" % (
                    p, E.show_val(v), E.show_val(e["default"])))
    return fails


# ---------------------------------------------------------------- reading a document back from its JSON text
def _jv(x):
    if isinstance(x, bool):
        return ("b", x)
    if isinstance(x, int):
        return ("i", x)
    if isinstance(x, float):
        return ("f", repr(x))
    if isinstance(x, str):
        return ("s", x)
    if isinstance(x, list):
        return ("a", [_jv(y) for y in x])
    return ("o",)


def _node(d):
    n = Node()
    ty = d.get("type")
    n.type = TYPE_NAMES.index(ty) if ty in TYPE_NAMES else (None if ty is None else "bad")
    n.desc = d.get("description")
    n.comment = d.get("comment")
    dt = d.get("datatype")
    n.dtype = DT_NAMES.index(dt) if dt in DT_NAMES else (None if dt is None else "bad")
    n.unit = d.get("unit")
    for k in ("min", "max", "allowed", "default"):
        setattr(n, k, _jv(d[k]) if d.get(k) is not None else None)
    ct = d.get("x-kuksa-changetype")
    n.ctype = CT_NAMES.index(ct) if ct in CT_NAMES else (None if ct is None else "bad")
    ch = d.get("children")
    n.children = [(k, _node(v)) for k, v in ch.items()] if isinstance(ch, dict) else None
    return n


def root_of_line(line):
    n = line[0]
    text = bytes(line[1:1 + n]).decode("utf-8")
    d = _json.loads(text)
    return [(k, _node(v)) for k, v in d.items()], text


def monitor_lines(lines, out):
    root, _ = root_of_line(lines[0])
    return monitor(root, out)


# ---------------------------------------------------------------- the real binary (family 19)
BUILTIN_PREFIX = "Kuksa.Databroker."      # GitVersion, CargoVersion, GitCommitSha: registered by main.rs itself


def dec_binary(out):
    """output of family 19 -> None (rejected) | dict path -> (kuksa data type, kuksa entry type, value or None)"""
    if not out or out[0] == [1]:
        return None
    rows = {}
    for l in out[1:]:
        if l[0] != 503:
            continue
        path, i = _str(l, 1)
        v = None
        if l[i + 2] == 1:
            v, _ = E.dec_val(l, i + 3)
        if not path.startswith(BUILTIN_PREFIX):
            rows[path] = (l[i], l[i + 1], v)
    return rows


def expected_binary(out17):
    """what the start-up sequence loads, in the form of dec_binary, from an output of family 17 (model or in-process)"""
    from . import hist as H
    if not out17 or out17[0] == [1]:
        return None
    ents = dict(dec_entry(l) for l in out17 if l[0] == 500)
    vals = {p: v for _i, p, v in (dec_loaded(l) for l in out17 if l[0] == 501)}
    rows = {}
    for p, e in ents.items():
        if p not in vals:
            continue                      # registration refused by the broker (invalid name): logged and skipped
        v = vals[p]
        rows[p] = (H.KUKSA_DT[e["dtype"]], H.KUKSA_ET[e["etype"]], None if v == (E.NA, None) else v)
    return rows


def monitor_binary(lines, out):
    """the real binary against the document itself (ground truth re-read from the JSON text)"""
    from . import hist as H
    root, _ = root_of_line(lines[0])
    if not out:
        return ["malformed-output: no output"]
    if out[0][0] in (-88, -2, -3, -1):
        return ["C17-binary: the databroker binary neither served nor refused the file (%r)" % out[0]]
    try:
        gt = ground_truth(root)
        why = None
    except Reject as r:
        gt, why = None, str(r)
    rows = dec_binary(out)
    if rows is None:
        return ["C17-accept: the databroker binary refused a well-formed document"] if gt is not None else []
    if gt is None:
        return ["C17-reject: the databroker binary loaded a malformed document (%s)" % why]
    fails = []
    names_ok = {p for p in gt if all(sg and not any(ch in H.UNI_WS for ch in sg) for sg in p.split("."))}
    if set(rows) - set(gt):
        fails.append("C17-leaves: the binary serves %s, which are no leaves of the document" % sorted(set(rows) - set(gt)))
    for p in sorted(names_ok):
        e = gt[p]
        if p not in rows:
            fails.append("C17-leaves: the binary does not serve the leaf %s" % p)
            continue
        dt, et, v = rows[p]
        if dt != H.KUKSA_DT[e["dtype"]] or et != H.KUKSA_ET[e["etype"]]:
            fails.append("C17-field: the binary serves %s as data type %d / entry type %d, declared %s / %d" % (
                p, dt, et, DT_NAMES[e["dtype"]], e["etype"]))
        if e["default"] is None:
            if v is not None:
                fails.append("C17-initial: %s starts as %s without a declared default" % (p, E.show_val(v)))
        else:
            ok = V.in_domain(e["dtype"], e["min"], e["max"], e["allowed"], e["default"], True)
            if ok is True and v != e["default"]:
                fails.append("C17-initial: attribute %s starts as %s in the binary, declared default %s" % (
                    p, "nothing" if v is None else E.show_val(v), E.show_val(e["default"])))
    return fails

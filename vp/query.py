"""Query family (C12): generated queries as syntax tree + SQL text, histories around them, and an
independent reference evaluator (exact rationals) that judges the implementation's own trace.

Case lines: PERM / ADD / UPDATE / CLEANUP / TICK / DUMP of the history family, plus
  40 SUBQ p extras sql_text query      41 QDROP handle
(see coq/Model/QueryRun.v).  `extras` is a bit mask of clauses appended to the SQL text only
(the compiler ignores them): 1 FROM, 2 DISTINCT, 4 GROUP BY, 8 ORDER BY, 16 LIMIT, 32 a second
statement; 64 = free text (no syntax tree: model and implementation are not compared)."""
from fractions import Fraction
from . import enc as E
from . import hist as H
from .props import c02 as V
from .props import c05 as S

SUBQ, QDROP, SUBQS = 40, 41, 42
OPS = ["AND", "OR", "=", "<>", ">", ">=", "<", "<="]
OTHER_OPS = ["+", "-", "*", "/", "LIKE", "||"]
NUMERIC = [2, 3, 4, 5, 6, 7, 8, 9, 10, 11]       # data type codes Int8..Double
T_STRING, T_BOOL, T_FLOAT, T_DOUBLE = 0, 1, 10, 11
RANGE = {2: (-128, 127), 3: (-32768, 32767), 4: (-2**31, 2**31 - 1), 5: (-2**63, 2**63 - 1),
         6: (0, 255), 7: (0, 65535), 8: (0, 2**32 - 1), 9: (0, 2**64 - 1)}
KIND_OF = {0: E.STR, 1: E.BOOL, 2: E.I32, 3: E.I32, 4: E.I32, 5: E.I64, 6: E.U32, 7: E.U32, 8: E.U32,
           9: E.U64, 10: E.F32, 11: E.F64}

SIGNALS = [("Vehicle.I8", 2), ("Vehicle.I16", 3), ("Vehicle.I32", 4), ("Vehicle.I64", 5), ("Vehicle.U8", 6),
           ("Vehicle.U16", 7), ("Vehicle.U32", 8), ("Vehicle.U64", 9), ("Vehicle.F32", 10), ("Vehicle.F64", 11),
           ("Vehicle.Flag", 1), ("Vehicle.Name", 0), ("Vehicle.Cabin.Temp", 10), ("Vehicle.Cabin.Count", 8),
           ("Vehicle.List", 16), ("Speed", 4), ("Vehicle.Other.Flag", 1), ("Vehicle.Other.Name", 0)]


# ---------------------------------------------------------------- syntax trees
def num(text):
    if "." in text:
        ip, fp = text.split(".")
        return ("num", ip, True, fp)
    return ("num", text, False, "")


def compound(e):
    return e[0] in ("bin", "not", "between", "neg")


def norm(e):
    """insert the parentheses the printer needs, as explicit nodes"""
    k = e[0]
    w = lambda x: ("nest", norm(x)) if compound(x) else norm(x)
    if k == "bin":
        return ("bin", e[1], w(e[2]), w(e[3]))
    if k == "not":
        return ("not", ("nest", norm(e[1])))
    if k == "neg":
        return ("neg", w(e[1]))
    if k == "between":
        return ("between", w(e[1]), e[2], w(e[3]), w(e[4]))
    if k == "lag":
        return ("lag", norm(e[1]))
    if k == "nest":
        return ("nest", norm(e[1]))
    return e


def sql(e):
    k = e[0]
    if k == "num":
        return e[1] + ("." if e[2] else "") + e[3]
    if k == "str":
        return "'" + e[1] + "'"
    if k == "bool":
        return "true" if e[1] else "false"
    if k == "id":
        return e[1]
    if k == "lag":
        return "LAG(" + sql(e[1]) + ")"
    if k == "lagn":
        return "LAG(" + ", ".join(e[2]) + ")"
    if k == "fun":
        return e[1]
    if k == "bin":
        return sql(e[2]) + " " + e[1] + " " + sql(e[3])
    if k == "nest":
        return "(" + sql(e[1]) + ")"
    if k == "not":
        return "NOT " + sql(e[1])
    if k == "neg":
        return "-" + sql(e[1])
    if k == "between":
        return sql(e[1]) + (" NOT" if e[2] else "") + " BETWEEN " + sql(e[3]) + " AND " + sql(e[4])
    if k == "other":
        return e[1]
    if k == "subq":
        return "(SELECT " + e[1] + ")"
    raise ValueError(k)


def enc(e):
    k = e[0]
    if k == "num":
        return [0, len(e[1])] + [int(c) for c in e[1]] + [int(e[2]), len(e[3])] + [int(c) for c in e[3]]
    if k == "str":
        return [1] + E.s(e[1])
    if k == "bool":
        return [2, int(e[1])]
    if k == "id":
        return [3] + E.s(e[1])
    if k == "lag":
        return [4] + enc(e[1])
    if k == "lagn":
        return [5, e[1]]
    if k == "fun":
        return [6]
    if k == "bin":
        return [7, OPS.index(e[1]) if e[1] in OPS else 8] + enc(e[2]) + enc(e[3])
    if k == "nest":
        return [8] + enc(e[1])
    if k == "not":
        return [9] + enc(e[1])
    if k == "neg":
        return [10] + enc(e[1])
    if k == "between":
        return [11, int(e[2])] + enc(e[1]) + enc(e[3]) + enc(e[4])
    if k == "other":
        return [12]
    if k == "subq":
        return [13]
    raise ValueError(k)


def query_tokens(proj, where):
    t = [len(proj)]
    for it in proj:
        if it[0] == "expr":
            t += [0] + enc(it[1])
        elif it[0] == "alias":
            t += [1] + enc(it[1]) + E.s(it[2])
        else:
            t += [2]
    return t + ([1] + enc(where) if where is not None else [0])


EXTRAS = [(1, " FROM t"), (4, " GROUP BY x"), (8, " ORDER BY x"), (16, " LIMIT 1"), (32, "; SELECT 1")]


def query_sql(proj, where, extras=0):
    items = []
    for it in proj:
        if it[0] == "expr":
            items.append(sql(it[1]))
        elif it[0] == "alias":
            items.append(sql(it[1]) + " AS " + it[2])
        else:
            items.append("*")
    s = "SELECT " + ("DISTINCT " if extras & 2 else "") + ", ".join(items)
    if extras & 1:
        s += " FROM t"
    if where is not None:
        s += " WHERE " + sql(where)
    for bit, txt in EXTRAS[1:]:
        if extras & bit:
            s += txt
    return s


def subq_line(p, proj, where, extras=0, sdv=False):
    """sdv: the subscription is opened through sdv.databroker.v1 Broker::Subscribe instead of the core API"""
    proj = [(it[0], norm(it[1])) + tuple(it[2:]) if it[0] != "wild" else it for it in proj]
    where = norm(where) if where is not None else None
    return [SUBQS if sdv else SUBQ, p, extras] + E.s(query_sql(proj, where, extras)) + query_tokens(proj, where)


def as_map(fs):
    """the fields of a response as the sdv handler reports them: a map (a repeated name keeps the last value),
    read back sorted by name"""
    return sorted(dict(fs).items())


def canon_subquery_refusal(lines, out):
    """a query with a subquery operand is refused by model and implementation alike, but the KIND of the refusal
    depends on what else is wrong with it and on the subquery's own text, which the model does not read (an unknown
    signal inside it is reported as 'subquery failed to compile', an error elsewhere in the condition comes first):
    for such queries only refused / accepted is compared"""
    al = split_outputs(lines, out)
    if al is None:
        return out
    res = []
    for d, o in al:
        if d["name"] == "SUBQ" and "(SELECT" in d.get("sql", "") and o and o[0][:1] == [1]:
            res.append([1, 0])
            res += o[1:]
        else:
            res += o
    return res


def canon_sdv(lines, out):
    """rewrites the responses of subscriptions opened through the sdv handler into their map form, so that the
    model's ordered field lists and the handler's maps can be compared"""
    al = split_outputs(lines, out)
    if al is None:
        return out
    sdv = set()
    res = []
    for d, o in al:
        if d["name"] == "SUBQ" and d.get("sdv") and o and o[0][:1] == [0] and len(o[0]) > 1:
            sdv.add(o[0][1])
        for l in o:
            if l and l[0] == 110 and len(l) > 2 and l[1] in sdv:
                try:
                    h, fs = dec_response(l)
                    m = as_map(fs)
                    x = [110, h, len(m)]
                    for n, v in m:
                        x += E.s(n) + E.val(*v)
                    res.append(x)
                    continue
                except (IndexError, TypeError, ValueError):
                    pass
            res.append(l)
    return res


# ---------------------------------------------------------------- generator
INT_POOL = [0, 1, 2, 5, 10, 20, 50, 100, 127, 128, 255, 256, 1000, 32767, 32768, 65535, 65536, 2**31 - 1, 2**31,
            2**32 - 1, 2**32, 2**53, 2**63 - 1, 2**63, 2**64 - 1, 2**64]
DEC_POOL = ["0.0", "0.1", "0.5", "1.0", "1.5", "2.25", "10.0", "10.5", "20.0", "50.0", "99.9", "100.0", "0.001",
            "3.14159", "1000000.0", "16777216.0", "16777217.0", ".5", "7.", "007", "1.50", "123456.789"]
F32_DEC_POOL = [x for x in DEC_POOL if x not in ("123456.789",)] + ["1234.567", "0.25", "65536.5"]
STR_POOL = ["a", "abc", "ABC", "", "hello world", "x.y"]
F_VALUES = [0.0, 0.1, 0.5, 1.0, 1.5, 2.25, 10.0, 10.5, 20.0, 50.0, 99.9, 100.0, -1.0, -0.0, 1e10, 3.14159,
            16777216.0, float("inf"), float("nan")]


class QGen:
    def __init__(self, rng, sigs, bias_valid=0.9):
        self.r = rng
        self.sigs = sigs            # [(path, dtype)] registered
        self.bias = bias_valid

    def sig(self, types=None):
        c = [s for s in self.sigs if types is None or s[1] in types]
        return self.r.choice(c) if c else None

    def literal_for(self, t, valid=True):
        r = self.r
        if t in RANGE:
            lo, hi = RANGE[t]
            if valid:
                c = [x for x in INT_POOL if lo <= x <= hi]
                return num(str(r.choice(c)))
            return r.choice([num(str(hi + 1)), num("1.5"), ("str", "abc"), ("bool", True), num(str(2**64))])
        if t in (T_FLOAT, T_DOUBLE):
            if valid:
                return num(r.choice((DEC_POOL if t == T_DOUBLE else F32_DEC_POOL) + [str(x) for x in INT_POOL[:12]]))
            return r.choice([("str", "1.0"), ("bool", False)])
        if t == T_STRING:
            return ("str", r.choice(STR_POOL)) if valid else r.choice([num("5"), ("bool", True)])
        if t == T_BOOL:
            return ("bool", r.random() < 0.5) if valid else r.choice([num("1"), ("str", "true")])
        return num("1")

    def term(self, types=None, allow_lag=True):
        s = self.sig(types)
        if s is None:
            return ("id", "Vehicle.Unknown"), None
        e = ("id", s[0])
        if allow_lag and self.r.random() < 0.2:
            e = ("lag", e)
        return e, s[1]

    def comparison(self):
        r = self.r
        valid = r.random() < self.bias
        op = r.choice(OPS[2:])
        c = r.random()
        if c < 0.12:                                   # bool / string equality
            t = r.choice([T_BOOL, T_STRING])
            l, lt = self.term([t])
            if lt is None:
                return ("bin", op, l, num("1"))
            if valid:
                op = r.choice(["=", "<>"])
            rr = self.literal_for(t, True) if r.random() < 0.7 else self.term([t])[0]
            return ("bin", op, l, rr)
        l, lt = self.term(NUMERIC)
        if lt is None:
            return ("bin", op, l, num("1"))
        if valid and r.random() < 0.08 and l[0] == "id":
            # a signal against its own previous value ("changed", "rose", "fell": the documented use of LAG), often
            # beside a second signal, so that rounds caused by the other signal evaluate it too
            return ("bin", r.choice(["<>", "<>", ">", "<", "="]), l, ("lag", l)) if r.random() < 0.5 else \
                ("bin", r.choice(["<>", "<>", ">", "<"]), ("lag", l), l)
        if valid and r.random() < 0.04:
            # a subquery as operand: refused (it used to be evaluated as its index among the subqueries, F29)
            s2 = self.sig(NUMERIC)
            sub = ("subq", s2[0])
            c = r.random()
            if c < 0.5:
                return ("bin", op, l, sub)
            if c < 0.75:
                return ("bin", r.choice(["=", "<>", ">", "<="]), sub, num(str(r.choice([0, 1, 5]))))
            return ("between", l, r.random() < 0.3, sub, self.literal_for(lt, True))
        c = r.random()
        if c < 0.6:
            rr = self.literal_for(lt, valid)
        elif c < 0.85:
            rr = self.term(NUMERIC if valid else [T_STRING, T_BOOL, 16])[0]
        elif c < 0.9:
            return ("bin", op, self.literal_for(lt, valid), l)      # literal on the left
        elif c < 0.95:
            return ("bin", op, num(str(r.choice(INT_POOL))), num(r.choice(DEC_POOL + [str(x) for x in INT_POOL])))
        else:
            rr = ("id", r.choice(["Vehicle.Unknown", "Nope", "Vehicle.I8.X"]))
        return ("bin", op, l, rr)

    def between(self):
        r = self.r
        valid = r.random() < self.bias
        l, lt = self.term(NUMERIC)
        if lt is None:
            lt = 4
        lo = self.literal_for(lt, valid or r.random() < 0.5)
        hi = self.literal_for(lt, True)
        c = r.random()
        if c < 0.15:
            lo = self.term(NUMERIC)[0]
        elif c < 0.25:
            hi = self.term(NUMERIC if valid else [T_STRING])[0]
        elif c < 0.3:
            l = num(str(r.choice(INT_POOL[:8])))
            if r.random() < 0.5:
                lo = self.term(NUMERIC)[0]
        return ("between", l, r.random() < 0.35, lo, hi)

    def cond(self, depth=0):
        r = self.r
        c = r.random()
        if depth >= 3 or c < 0.45:
            return self.comparison()
        if c < 0.6:
            return self.between()
        if c < 0.8:
            return ("bin", r.choice(["AND", "OR"]), self.cond(depth + 1), self.cond(depth + 1))
        if c < 0.88:
            return ("not", self.cond(depth + 1))
        if c < 0.93:
            s = self.sig([T_BOOL] if r.random() < self.bias else None)
            return ("id", s[0]) if s else ("bool", True)
        if c < 0.97:
            return ("bin", r.choice(["=", "<>"]), self.cond(depth + 1), ("bool", r.random() < 0.5))
        return self.outside()

    def outside(self):
        """expressions outside the subset or ill-formed"""
        r = self.r
        s = self.sig(NUMERIC) or ("Vehicle.I32", 4)
        x = ("id", s[0])
        return r.choice([
            ("bin", r.choice(OTHER_OPS), x, num("1")),
            ("neg", num("5")),
            ("bin", ">", x, ("neg", num("5"))),
            ("lagn", 0, []),
            ("lagn", 2, [s[0], "1"]),
            ("lag", ("lag", x)),
            ("lag", num("1")),
            ("fun", "ABS(" + s[0] + ")"),
            ("fun", "lag(" + s[0] + ")"),
            ("other", s[0] + " IS NULL"),
            ("other", s[0] + " IN (1, 2)"),
            ("other", "CASE WHEN " + s[0] + " > 1 THEN 1 ELSE 0 END"),
            ("not", x),
            ("bin", "AND", x, ("bool", True)),
            num("1"),
        ])

    def query(self):
        r = self.r
        proj = []
        for _ in range(r.choice([1, 1, 2, 2, 3])):
            c = r.random()
            if c < 0.55:
                e = self.term(None)[0]
            elif c < 0.8:
                e = self.cond(2)
            elif c < 0.85:
                e = self.literal_for(r.choice([T_STRING, T_BOOL]), True)
            elif c < 0.9:
                e = num("5")
            elif c < 0.92:
                proj.append(("wild",))
                continue
            elif c < 0.96:
                e = self.term(None)[0]
            else:
                e = self.outside()
            if r.random() < 0.35:
                proj.append(("alias", e, r.choice(["a", "pos1", "cond1", "Vehicle_Speed", "x1"])))
            else:
                proj.append(("expr", e))
        where = self.cond() if r.random() < 0.85 else None
        return proj, where


def value_for(rng, t):
    k = KIND_OF.get(t)
    if t in RANGE:
        lo, hi = RANGE[t]
        c = [x for x in INT_POOL if lo <= x <= hi] + [x for x in (-1, -5, -128, lo) if lo <= x <= hi]
        return E.val(k, rng.choice(c[:10] if rng.random() < 0.7 else c))
    if t == T_FLOAT:
        return E.val(k, E.f32_bits(rng.choice(F_VALUES)))
    if t == T_DOUBLE:
        return E.val(k, E.f64_bits(rng.choice(F_VALUES)))
    if t == T_STRING:
        return E.val(k, rng.choice(STR_POOL))
    if t == T_BOOL:
        return E.val(k, rng.random() < 0.5)
    return E.val(E.F64A, [E.f64_bits(1.0)] * rng.randrange(0, 3))


def gen_case(rng, length=(10, 40)):
    r = rng
    L = []
    L.append([H.PERM, 0] + E.s(H.ALL_SCOPE))
    nperm = 1
    expiring = []
    for _ in range(r.randrange(0, 3)):
        exp = 1 if r.random() < 0.3 else 0
        scope = r.choice(["read:Vehicle", "read:Vehicle.Cabin", "read:Vehicle.*", "read", "provide read:Vehicle.I32",
                          "read:Vehicle.Other provide:Vehicle", "actuate:Vehicle.F32"])
        L.append([H.PERM, exp] + E.s(scope))
        if exp:
            expiring.append(nperm)
        nperm += 1
    sigs = r.sample(SIGNALS, r.randrange(4, 10))
    reg = []
    for (path, t) in sigs:
        ct = r.choice([0, 1, 2, 2])
        L.append([H.ADD, 0] + E.s(path) + [t, ct, r.choice([0, 0, 2]), 0, 0, 0])
        reg.append((path, t, ct))
    g = QGen(r, [(p, t) for (p, t, _) in reg])
    nsub = 0
    ticked = False

    def who():
        if ticked and expiring and r.random() < 0.3:
            return r.choice(expiring)
        return 0 if r.random() < 0.7 else r.randrange(nperm)

    def update():
        n = r.choice([1, 1, 1, 2, 3])
        body = []
        for _ in range(n):
            i = r.randrange(len(reg)) if r.random() < 0.95 else len(reg) + 1
            t = reg[i][1] if i < len(reg) else 4
            # mostly current values; now and then the target of the signal alone, or both (a query reads current
            # values only: a write of the target alone must not wake it)
            fl = r.choice([1, 1, 1, 1, 1, 1, 1, 2, 2, 3])
            body += [i, fl] + (value_for(r, t) if fl & 1 else []) + (value_for(r, t) if fl & 2 else [])
        L.append([H.UPDATE, 0 if r.random() < 0.85 else who(), n] + body)

    # initial values for most signals
    for i, (_p, t, _c) in enumerate(reg):
        if r.random() < 0.8:
            L.append([H.UPDATE, 0, 1, i, 1] + value_for(r, t))
    for _ in range(r.randrange(*length)):
        c = r.random()
        if c < 0.22 and nsub < 6:
            proj, where = g.query()
            extras = 0
            if r.random() < 0.05:
                extras = r.choice([1, 2, 4, 8, 16, 32])
            L.append(subq_line(who(), proj, where, extras, sdv=r.random() < 0.3))
            nsub += 1          # an upper bound: refused queries get no handle
        elif c < 0.9:
            update()
        elif c < 0.93 and nsub:
            L.append([QDROP, r.randrange(nsub)])
        elif c < 0.96:
            L.append([H.CLEANUP])
        elif c < 0.98 and expiring and not ticked:
            L.append([H.TICK])
            ticked = True
        else:
            L.append([H.GET, 0, r.randrange(len(reg))])
    L.append([H.DUMP])
    return L


CROSS_POOL = [0, 1, -1, 5, 2**24 - 1, 2**24, 2**24 + 1, 2**31 - 1, 2**31, 2**32 - 1, 2**32, 2**53 - 1, 2**53, 2**53 + 1,
              2**63 - 1, 2**63, 2**64 - 1, -2**31, -2**53 - 1, -2**63, 2**62 + 1]


def cross_case(rng):
    """comparisons between two signals of different numeric types inside a query, with values at the edges where
    the types part ways: 2^24 (float), 2^53 (double), 2^31 / 2^32 / 2^63 / 2^64 (integer widths), negative against
    unsigned"""
    r = rng
    L = [[H.PERM, 0] + E.s(H.ALL_SCOPE)]
    nums = [(p, t) for (p, t) in SIGNALS if t in NUMERIC]
    (pa, ta), (pb, tb) = r.sample(nums, 2)
    if r.random() < 0.7:        # mostly a wide integer against a float type
        (pa, ta) = r.choice([s for s in nums if s[1] in (5, 9, 4, 8)])
        (pb, tb) = r.choice([s for s in nums if s[1] in (10, 11) and s[0].count(".") == 1])
        if r.random() < 0.5:
            (pa, ta), (pb, tb) = (pb, tb), (pa, ta)
    reg = [(pa, ta), (pb, tb)]
    for (path, t) in reg:
        L.append([H.ADD, 0] + E.s(path) + [t, r.choice([0, 2]), 0, 0, 0, 0])

    # one edge per case: most values sit on it or next to it, on both sides of the comparison
    edge = r.choice([2**24, 2**53, 2**53, 2**63, 2**31, 2**32, 2**64 - 1, -2**53, -2**63, 0])
    near = [edge - 2, edge - 1, edge, edge + 1, edge + 2]

    def val(t):
        k = KIND_OF[t]
        focus = r.random() < 0.7
        if t in RANGE:
            lo, hi = RANGE[t]
            c = [x for x in (near if focus else CROSS_POOL) if lo <= x <= hi] or [x for x in CROSS_POOL if lo <= x <= hi]
            return E.val(k, r.choice(c))
        x = float(r.choice(near if focus else CROSS_POOL))
        if r.random() < 0.2:
            x = r.choice([x + 0.5, x * 1.0000001, x - 1.0])
        return E.val(k, E.f32_bits(x) if t == T_FLOAT else E.f64_bits(x))

    for i, (_p, t) in enumerate(reg):
        L.append([H.UPDATE, 0, 1, i, 1] + val(t))
    ops = r.sample(OPS[2:], 3)
    for op in ops:
        a, b = (("id", pa), ("id", pb)) if r.random() < 0.7 else (("id", pb), ("id", pa))
        where = ("bin", op, a, b)
        if r.random() < 0.2:
            where = ("not", where)
        L.append(subq_line(0, [("expr", ("id", pa)), ("expr", ("id", pb))], where, 0, sdv=r.random() < 0.3))
    if r.random() < 0.5:
        L.append(subq_line(0, [("expr", ("id", pa))], ("between", ("id", pa), r.random() < 0.3, ("id", pb), ("id", pb)), 0))
    for _ in range(r.randrange(8, 20)):
        i = r.randrange(2)
        L.append([H.UPDATE, 0, 1, i, 1] + val(reg[i][1]))
    L.append([H.DUMP])
    return L


GARBAGE_TOKENS = ["SELECT", "WHERE", "FROM", "AND", "OR", "NOT", "BETWEEN", "LAG", "(", ")", ",", "=", "<", ">", "*",
                  "1", "0.5", "'a'", "\"q\"", "Vehicle.I32", "Vehicle.F32", "Vehicle", ".", ";", "AS", "x", "NULL", "IN",
                  "--", "/*", "LAG()", "LAG(Vehicle.I32)", "CAST", "::", "[", "]", "\\", "'", "\x00", "é", "SELECT *",
                  "(SELECT Vehicle.I32)", "EXISTS", "UNION", "x'ff'", "0x10", "1e5", "99999999999999999999999"]


def gen_garbage_case(rng):
    L = [[H.PERM, 0] + E.s(H.ALL_SCOPE)]
    for (path, t) in SIGNALS[:12]:
        L.append([H.ADD, 0] + E.s(path) + [t, 2, 0, 0, 0, 0])
    for _ in range(rng.randrange(3, 10)):
        if rng.random() < 0.7:
            txt = " ".join(rng.choice(GARBAGE_TOKENS) for _ in range(rng.randrange(1, 12)))
            if rng.random() < 0.6:
                txt = "SELECT " + txt
        else:
            txt = "".join(chr(rng.choice([rng.randrange(32, 127), rng.randrange(1, 0x2000)]))
                          for _ in range(rng.randrange(0, 40)))
        L.append([SUBQ, 0, 64] + E.s(txt) + [0, 0])
        L.append([H.UPDATE, 0, 1, rng.randrange(12), 1] + value_for(rng, SIGNALS[rng.randrange(12)][1]))
    L.append([H.DUMP])
    return L


# ---------------------------------------------------------------- parsing of lines and outputs
def parse_lines(lines):
    """-> list of dicts, one per operation"""
    ops = []
    for l in lines:
        if l[0] in (SUBQ, SUBQS):
            n = l[3]
            txt = bytes(l[4:4 + n]).decode("utf-8", "replace")
            q = dec_query(l[4 + n:]) if not l[2] & 64 else None
            ops.append({"name": "SUBQ", "p": l[1], "extras": l[2], "sql": txt, "query": q, "sdv": l[0] == SUBQS})
        elif l[0] == QDROP:
            ops.append({"name": "QDROP", "h": l[1]})
        else:
            ops.append(H.parse_op(l))
    return ops


def dec_qexpr(t, i):
    k = t[i]
    if k == 0:
        n = t[i + 1]
        ip = "".join(str(d) for d in t[i + 2:i + 2 + n])
        dot, m = t[i + 2 + n], t[i + 3 + n]
        fp = "".join(str(d) for d in t[i + 4 + n:i + 4 + n + m])
        return ("num", ip, bool(dot), fp), i + 4 + n + m
    if k in (1, 3):
        n = t[i + 1]
        return (("str" if k == 1 else "id"), bytes(t[i + 2:i + 2 + n]).decode()), i + 2 + n
    if k == 2:
        return ("bool", bool(t[i + 1])), i + 2
    if k in (4, 8, 9, 10):
        e, j = dec_qexpr(t, i + 1)
        return ({4: "lag", 8: "nest", 9: "not", 10: "neg"}[k], e), j
    if k == 5:
        return ("lagn", t[i + 1], []), i + 2
    if k == 6:
        return ("fun", "?"), i + 1
    if k == 7:
        a, j = dec_qexpr(t, i + 2)
        b, j = dec_qexpr(t, j)
        return ("bin", OPS[t[i + 1]] if t[i + 1] < 8 else "?", a, b), j
    if k == 11:
        a, j = dec_qexpr(t, i + 2)
        lo, j = dec_qexpr(t, j)
        hi, j = dec_qexpr(t, j)
        return ("between", a, bool(t[i + 1]), lo, hi), j
    if k == 13:
        return ("subq", "?"), i + 1
    return ("other", "?"), i + 1


def dec_query(t):
    n = t[0]
    i = 1
    proj = []
    for _ in range(n):
        k = t[i]
        if k == 2:
            proj.append(("wild",))
            i += 1
            continue
        e, i = dec_qexpr(t, i + 1)
        if k == 1:
            m = t[i]
            proj.append(("alias", e, bytes(t[i + 1:i + 1 + m]).decode()))
            i += 1 + m
        else:
            proj.append(("expr", e))
    where = None
    if t[i] == 1:
        where, i = dec_qexpr(t, i + 1)
    return proj, where


def split_outputs(lines, out):
    """align output lines with operations -> [(op dict, [lines])] or None"""
    ops = parse_lines(lines)
    res = []
    i = 0
    for d in ops:
        if i >= len(out):
            return None
        n = d["name"]
        if out[i] in ([-1], [-77], [-66]):
            res.append((d, [out[i]]))
            i += 1
            continue
        if n in ("UPDATE", "SUBQ"):
            j = i + 1
            while j < len(out) and out[j] and out[j][0] == 110:
                j += 1
            res.append((d, out[i:j]))
            i = j
        elif n == "DUMP":
            j = i
            while j < len(out) and out[j] != [399]:
                j += 1
            res.append((d, out[i:j + 1]))
            i = j + 1
        else:
            res.append((d, [out[i]]))
            i += 1
    return res if i == len(out) else None


def dec_response(l):
    h, n = l[1], l[2]
    i = 3
    fs = []
    for _ in range(n):
        m = l[i]
        name = bytes(l[i + 1:i + 1 + m]).decode("utf-8", "replace")
        v, i = E.dec_val(l, i + 1 + m)
        fs.append((name, v))
    return h, fs


# ---------------------------------------------------------------- reference evaluator
UNKNOWN = "unknown"
NULL = "null"          # no truth value (SQL's unknown): an ordering comparison with an unavailable operand
import collections
STATS = collections.Counter()


class Refuse(Exception):
    """the query must be refused at subscribe time"""


class Outside(Exception):
    """not judged (outside what the reference evaluator covers)"""


def strip(e):
    while e[0] == "nest":
        e = e[1]
    return e


def lit_value(e, t):
    """value of a number literal typed as data type t -> (kind, payload); Refuse if it does not fit"""
    text = e[1] + ("." if e[2] else "") + e[3]
    if t in RANGE:
        if e[2] or not e[1]:
            raise Refuse("literal %s is not an integer" % text)
        z = int(e[1])
        lo, hi = RANGE[t]
        if not lo <= z <= hi:
            raise Refuse("literal %s does not fit %s" % (text, E.DATA_TYPES[t]))
        return (KIND_OF[t], z)
    if t == T_DOUBLE:
        return (E.F64, E.f64_bits(float(text if text != "." else "0")))
    if t == T_FLOAT:
        if len((e[1] + e[3]).lstrip("0")) > 7:
            raise Outside("f32 literal with more than 7 significant digits")
        return (E.F32, E.f32_bits(float(text)))
    raise Refuse("number literal compared with %s" % E.DATA_TYPES[t])


class Typed:
    """a typed query: every node is (kind, type, ...)"""


def typecheck(e, schema):
    """-> typed tree; raises Refuse for queries that must be refused, Outside for not-judged ones.
    typed nodes: ("sig", t, path, lag) ("lit", t, value) ("cmp", op, a, b) ("and"/"or", a, b) ("not", a)
                 ("between", a, neg, lo, hi)"""
    e = strip(e)
    k = e[0]
    if k == "num":
        return ("num", None, e)
    if k == "str":
        return ("lit", T_STRING, (E.STR, e[1]))
    if k == "bool":
        return ("lit", T_BOOL, (E.BOOL, e[1]))
    if k == "id":
        if e[1] not in schema:
            raise Refuse("unknown signal " + e[1])
        return ("sig", schema[e[1]], e[1], False)
    if k == "lag":
        a = typecheck(e[1], schema)
        if a[0] != "sig" or a[3]:
            raise Refuse("LAG of something that is not a signal")
        return ("sig", a[1], a[2], True)
    if k in ("lagn", "fun", "neg", "other"):
        if k == "neg":
            typecheck(e[1], schema)
        raise Refuse("outside the subset: " + k)
    if k == "subq":
        # a subquery is a set of rows, not a value: as an operand it has no SQL reading in this subset
        raise Refuse("a subquery used as an operand is outside the subset")
    if k == "not":
        a = typecheck(e[1], schema)
        if tyof(a) != T_BOOL:
            raise Refuse("NOT of a non-boolean")
        return ("not", a)
    if k == "bin":
        a = typecheck(e[2], schema)
        b = typecheck(e[3], schema)
        op = e[1]
        a, b = resolve(a, b)
        if op not in OPS:
            raise Refuse("operator outside the subset: " + op)
        if op in ("AND", "OR"):
            if tyof(a) != T_BOOL or tyof(b) != T_BOOL:
                raise Refuse(op + " of non-booleans")
            return (op.lower(), a, b)
        ta, tb = tyof(a), tyof(b)
        if ta in NUMERIC and tb in NUMERIC:
            return ("cmp", op, a, b)
        if op in ("=", "<>") and ta == tb and ta in (T_STRING, T_BOOL):
            return ("cmp", op, a, b)
        raise Refuse("comparison %s between %s and %s" % (op, E.DATA_TYPES[ta], E.DATA_TYPES[tb]))
    if k == "between":
        a = typecheck(e[1], schema)
        lo = typecheck(e[3], schema)
        hi = typecheck(e[4], schema)
        if a[0] == "num":
            t = tyof(lo) if lo[0] != "num" else (tyof(hi) if hi[0] != "num" else None)
            if t is None:
                raise Refuse("BETWEEN of literals only")
            a = ("lit", t, lit_value(a[2], t))
        t = tyof(a)
        if lo[0] == "num":
            lo = ("lit", t, lit_value(lo[2], t))
        if hi[0] == "num":
            hi = ("lit", t, lit_value(hi[2], t))
        if not (t in NUMERIC and tyof(lo) in NUMERIC and tyof(hi) in NUMERIC):
            raise Refuse("BETWEEN over non-numeric operands")
        return ("between", a, e[2], lo, hi)
    raise Outside(k)


def tyof(n):
    return {"sig": lambda: n[1], "lit": lambda: n[1], "num": lambda: None}.get(n[0], lambda: T_BOOL)()


def resolve(a, b):
    if a[0] == "num" and b[0] == "num":
        ia = int(a[2][1]) if not a[2][2] and a[2][1] else None
        ib = int(b[2][1]) if not b[2][2] and b[2][1] else None
        if ia is not None and ib is not None:
            for t in (5, 9):
                lo, hi = RANGE[t]
                if lo <= ia <= hi and lo <= ib <= hi:
                    return ("lit", t, (KIND_OF[t], ia)), ("lit", t, (KIND_OF[t], ib))
        return ("lit", T_DOUBLE, lit_value(a[2], T_DOUBLE)), ("lit", T_DOUBLE, lit_value(b[2], T_DOUBLE))
    if a[0] == "num":
        return ("lit", tyof(b), lit_value(a[2], tyof(b))), b
    if b[0] == "num":
        return a, ("lit", tyof(a), lit_value(b[2], tyof(a)))
    return a, b


DECLINED_IS_UNKNOWN = True


def is_float(v):
    return v[0] in (E.F32, E.F64)


def compare(op, va, vb):
    """exact SQL comparison of two scalar values -> True / False / UNKNOWN (not judged)"""
    if va[0] == E.NA or vb[0] == E.NA:
        # an unavailable operand: the broker documents `NotAvailable = number` as false (so `<>` as true);
        # every other comparison with it has no truth value
        other = vb if va[0] == E.NA else va
        if other[0] in (E.I32, E.I64, E.U32, E.U64, E.F32, E.F64) and op in ("=", "<>"):
            return op == "<>"
        return NULL
    if va[0] in (E.BOOL, E.STR) or vb[0] in (E.BOOL, E.STR):
        if va[0] != vb[0]:
            return UNKNOWN
        return (va[1] == vb[1]) if op == "=" else (va[1] != vb[1]) if op == "<>" else UNKNOWN
    xa, xb = E.exact(*va), E.exact(*vb)
    if xa is None or xb is None:
        return UNKNOWN
    # comparisons the broker declines (documented in C13): 64-bit integers beyond 32 bits against floats.
    # Declining is admissible (no row); an answer, if one is given, must still be the right one: the second pass of
    # `judge` (DECLINED_IS_UNKNOWN off) computes the exact truth value for that purpose
    for (p, q) in ((va, vb), (vb, va)):
        if DECLINED_IS_UNKNOWN and p[0] in (E.I64, E.U64) and is_float(q) and \
                not (-2**31 <= p[1] < 2**31 if p[0] == E.I64 else p[1] < 2**32):
            return UNKNOWN
    if "nan" in (xa, xb):
        return (op == "<>")
    inf = {"+inf": 1, "-inf": -1}
    if xa in inf or xb in inf:
        sa, sb = inf.get(xa, 0), inf.get(xb, 0)
        if sa == sb:
            return UNKNOWN            # inf - inf
        gt, eq = sa > sb, False
    else:
        gt = xa > xb
        if is_float(va) or is_float(vb):
            eps = Fraction(1, 2**23) if (va[0] == E.F32 and vb[0] == E.F32) else Fraction(1, 2**52)
            d = abs(xa - xb)
            if d == 0:
                eq = True
            elif d >= 2 * eps:
                eq = False
            else:
                return UNKNOWN        # inside the tolerance band: either answer is admissible
        else:
            eq = xa == xb
    lt = (not gt) and not (xa == xb if not (xa in inf or xb in inf) else False)
    if op == "=":
        return eq
    if op == "<>":
        return not eq
    if op == ">":
        return gt
    if op == "<":
        return lt
    if op == ">=":
        return gt or eq
    if op == "<=":
        return lt or eq
    return UNKNOWN


def k_and(a, b):
    """Kleene conjunction over True / False / NULL, with UNKNOWN = not judged"""
    if a is False or b is False:
        return False
    if UNKNOWN in (a, b):
        return UNKNOWN
    if NULL in (a, b):
        return NULL
    return True


def k_not(a):
    return a if a in (UNKNOWN, NULL) else (not a)


def truth(n, cur, prev):
    """typed condition -> True / False / NULL / UNKNOWN"""
    k = n[0]
    if k in ("sig", "lit"):
        v = evaluate(n, cur, prev)
        if v == UNKNOWN:
            return UNKNOWN
        if v[0] == E.NA:
            return NULL
        return v[1] if v[0] == E.BOOL else UNKNOWN
    if k == "cmp":
        a, b = evaluate(n[2], cur, prev), evaluate(n[3], cur, prev)
        if UNKNOWN in (a, b):
            return UNKNOWN
        return compare(n[1], a, b)
    if k == "and":
        return k_and(truth(n[1], cur, prev), truth(n[2], cur, prev))
    if k == "or":
        return k_not(k_and(k_not(truth(n[1], cur, prev)), k_not(truth(n[2], cur, prev))))
    if k == "not":
        return k_not(truth(n[1], cur, prev))
    if k == "between":
        a, lo, hi = (evaluate(x, cur, prev) for x in (n[1], n[3], n[4]))
        if UNKNOWN in (a, lo, hi):
            return UNKNOWN
        r = k_and(compare(">=", a, lo), compare("<=", a, hi))
        return k_not(r) if n[2] else r
    return UNKNOWN


def has_null(n, cur, prev):
    """does the condition contain a part without a truth value (the broker then reports nothing at all)"""
    k = n[0]
    if k == "cmp":
        a, b = evaluate(n[2], cur, prev), evaluate(n[3], cur, prev)
        return UNKNOWN not in (a, b) and compare(n[1], a, b) == NULL
    if k == "between":
        a, lo, hi = (evaluate(x, cur, prev) for x in (n[1], n[3], n[4]))
        return UNKNOWN not in (a, lo, hi) and NULL in (compare(">=", a, lo), compare("<=", a, hi))
    if k in ("and", "or"):
        return has_null(n[1], cur, prev) or has_null(n[2], cur, prev)
    if k == "not":
        return has_null(n[1], cur, prev)
    if k in ("sig", "lit"):
        v = evaluate(n, cur, prev)
        return v != UNKNOWN and v[0] == E.NA
    return False


def clean(n, cur, prev):
    """every comparison in the expression is decided (no part without truth value, none unjudged): only
    then does the broker evaluate it without an execution error"""
    k = n[0]
    if k in ("sig", "lit"):
        return evaluate(n, cur, prev) != UNKNOWN
    if k == "cmp":
        if not all(clean(x, cur, prev) for x in (n[2], n[3])):
            return False
        a, b = evaluate(n[2], cur, prev), evaluate(n[3], cur, prev)
        return UNKNOWN not in (a, b) and compare(n[1], a, b) in (True, False)
    if k == "between":
        if not all(clean(x, cur, prev) for x in (n[1], n[3], n[4])):
            return False
        a, lo, hi = (evaluate(x, cur, prev) for x in (n[1], n[3], n[4]))
        return UNKNOWN not in (a, lo, hi) and compare(">=", a, lo) in (True, False) and compare("<=", a, hi) in (True, False)
    if k in ("and", "or"):
        return clean(n[1], cur, prev) and clean(n[2], cur, prev) and \
            truth(n[1], cur, prev) in (True, False) and truth(n[2], cur, prev) in (True, False)
    if k == "not":
        return clean(n[1], cur, prev) and truth(n[1], cur, prev) in (True, False)
    return False


def evaluate(n, cur, prev):
    """typed tree -> value (kind, payload) of the node; UNKNOWN if not judged.
    cur(path) -> visible current value or UNKNOWN; prev(path) -> previous value or UNKNOWN"""
    k = n[0]
    if k == "sig":
        return prev(n[2]) if n[3] else cur(n[2])
    if k == "lit":
        return n[2]
    t = truth(n, cur, prev)
    if t in (UNKNOWN, NULL):
        return UNKNOWN
    return (E.BOOL, t)


def signals_of(n):
    if n[0] == "sig":
        return {n[2]}
    out = set()
    for x in n[1:]:
        if isinstance(x, tuple) and x and isinstance(x[0], str) and x[0] in ("sig", "lit", "cmp", "and", "or", "not",
                                                                               "between", "num"):
            out |= signals_of(x)
    return out


def lags_of(n):
    if n[0] == "sig":
        return {n[2]} if n[3] else set()
    out = set()
    for x in n[1:]:
        if isinstance(x, tuple) and x and isinstance(x[0], str) and x[0] in ("sig", "lit", "cmp", "and", "or", "not",
                                                                               "between", "num"):
            out |= lags_of(x)
    return out


def check_query(q, schema):
    """-> ("ok", typed_proj, typed_where) | ("refuse", reason) | ("outside", reason)"""
    proj, where = q
    try:
        tw = None
        if where is not None:
            tw = typecheck(where, schema)
            if tw[0] == "num" or tyof(tw) != T_BOOL:
                raise Refuse("WHERE is not a boolean expression")
        tp = []
        for idx, it in enumerate(proj):
            if it[0] == "wild":
                raise Refuse("wildcard projection")
            t = typecheck(it[1], schema)
            if t[0] == "num":
                raise Refuse("bare number in the projection")
            e0 = strip(it[1])
            name = it[2] if it[0] == "alias" else (t[2] if t[0] == "sig" else "field_%d" % idx)
            tp.append((name, t))
        return ("ok", tp, tw)
    except Refuse as r:
        return ("refuse", str(r))
    except Outside as r:
        return ("outside", str(r))


def monitor(lines, out):
    """judges the implementation's trace against the reference evaluator"""
    al = split_outputs(lines, out)
    if al is None:
        if out and out[0] == [-77]:
            return ["panic: a query operation panicked"]
        if out and out[0] == [-66]:
            return ["timing: the expiry instant could not be placed (machine too slow?)"]
        return ["malformed-output: implementation output does not align with the operations"]
    fails = []
    P = H.Principals()
    schema = {}      # path -> dtype
    ids = {}         # id -> (path, dtype, ctype)
    store = {}       # path -> value (acknowledged)
    before = {}      # path -> value before the last changing write
    subs = {}        # handle -> dict
    ticked = False
    nsub = 0
    for k, (d, o) in enumerate(al, 1):
        name = d["name"]
        if o[0] == [-77]:
            fails.append("panic: %s panicked" % name)
            continue
        if o[0] == [-66]:
            return fails + ["timing: the expiry instant could not be placed (machine too slow?)"]
        if o[0] == [-1]:
            continue
        if name == "PERM":
            P.add(d["scope"], d["exp"])
        elif name == "TICK":
            ticked = True
        elif name == "ADD":
            if o[0][0] == 0:
                ids[o[0][1]] = (d["path"], d["dtype"], d["ctype"])
                schema[d["path"]] = d["dtype"]
                store.setdefault(d["path"], (E.NA, None))
        elif name == "SUBQ":
            accepted = o[0][0] == 0
            if d["extras"] & 64:
                if accepted:
                    # free text that was accepted: its responses are not judged
                    subs[o[0][1]] = {"h": o[0][1], "p": d["p"], "sql": d["sql"], "v": ("outside", "free text"),
                                     "open": True, "dead": False}
                continue
            verdict = check_query(d["query"], schema)
            STATS["queries: reference verdict " + verdict[0]] += 1
            if d["extras"]:
                verdict = ("refuse", "it carries a clause outside SELECT ... [WHERE ...]")
            if d["extras"] and accepted:
                fails.append("C12-ignored-clause: a query with a clause outside the subset (%s) was accepted; the clause "
                             "is silently ignored: %s" % (
                                 "/".join(n for b, n in ((1, "FROM"), (2, "DISTINCT"), (4, "GROUP BY"), (8, "ORDER BY"),
                                                          (16, "LIMIT"), (32, "second statement")) if d["extras"] & b),
                                 d["sql"]))
            if verdict[0] == "refuse" and accepted:
                fails.append("C12-refusal: accepted at subscribe time although %s: %s" % (verdict[1], d["sql"]))
            if verdict[0] == "ok" and not accepted:
                fails.append("C12-accept: a query of the supported subset was refused (kind %d): %s" % (o[0][1], d["sql"]))
            if accepted:
                h = o[0][1]
                s = {"h": h, "p": d["p"], "sql": d["sql"], "v": verdict, "open": True, "dead": False, "sdv": d.get("sdv")}
                subs[h] = s
                if verdict[0] == "ok":
                    fails += judge(s, o[1:], None, store, before, P, ticked, initial=True)
        elif name == "QDROP":
            if d["h"] in subs:
                subs[d["h"]]["open"] = False
        elif name == "UPDATE":
            r = o[0]
            errs = {}
            for j in range(r[0]):
                errs[r[1 + 2 * j]] = errs.get(r[1 + 2 * j], 0) + 1
            cnt = {}
            for u in d["ups"]:
                cnt[u["id"]] = cnt.get(u["id"], 0) + 1
            changed = set()
            unsure = set()
            for u in d["ups"]:
                i = u["id"]
                if i not in ids or "dp" not in u:
                    continue
                if errs.get(i, 0) == cnt[i]:
                    continue
                path, t, ct = ids[i]
                if errs.get(i, 0) > 0 or cnt[i] > 1:
                    unsure.add(path)
                    store[path] = UNKNOWN
                    before[path] = UNKNOWN
                    continue
                old = store.get(path)
                if old == UNKNOWN:
                    unsure.add(path)
                    store[path] = u["dp"]
                    before[path] = UNKNOWN
                    continue
                if ct != 2 and H.ieee_value_eq(u["dp"], old):
                    continue
                before[path] = old
                store[path] = u["dp"]
                changed.add(path)
            resp = {}
            for l in o[1:]:
                h, fs = dec_response(l)
                resp.setdefault(h, []).append(fs)
            if any(not s["open"] and not s["dead"] for s in subs.values()):
                # a closed subscriber makes the round fail: housekeeping, no lag bookkeeping
                for s in subs.values():
                    if not s["open"]:
                        s["dead"] = True
            round_failed = any(not s["open"] for s in subs.values())
            for h, s in subs.items():
                if s["v"][0] != "ok" or not s["open"]:
                    continue
                fails += judge(s, [[110, h, 0]] if False else resp.get(h, []), (changed, unsure), store, before, P, ticked)
                # lag bookkeeping as this subscription can rely on it: a signal that changed in this round has caught
                # up iff the subscription was sent a response for the round (and no notification of the round failed)
                sy = s.setdefault("synced", {})
                emitted = bool(resp.get(h)) and not round_failed
                for path in changed | unsure:
                    sy[path] = emitted and path in changed
                if emitted:
                    _, tp, tw = s["v"]
                    ins = set()
                    for (_n, t) in tp:
                        ins |= signals_of(t)
                    if tw is not None:
                        ins |= signals_of(tw)
                    for path in ins:
                        if path not in unsure:
                            sy[path] = True
            for h in resp:
                if h not in subs:
                    fails.append("C12-spurious: a response for an unknown subscription %d" % h)
        elif name == "CLEANUP":
            for s in subs.values():
                if not s["open"]:
                    s["dead"] = True
    return fails


def judge(s, got, change, store, before, P, ticked, initial=False):
    """compare what subscription s was sent in one round with the reference semantics.
    got: list of responses (each a list of (name, value)) when called from UPDATE, raw lines at SUBQ"""
    fails = []
    _, tp, tw = s["v"]
    if initial:
        got = [dec_response(l)[1] for l in got]
    if len(got) > 1:
        return ["C12-trigger: subscription %d got %d responses for one request" % (s["h"], len(got))]
    inputs = set()
    lagged = set()
    for (_n, t) in tp:
        inputs |= signals_of(t)
        lagged |= lags_of(t)
    if tw is not None:
        inputs |= signals_of(tw)
        lagged |= lags_of(tw)

    def visible(path):
        c = P.can(s["p"], "read", path, ticked)
        if c is None:
            return None
        return bool(c)

    def cur(path):
        v = visible(path)
        if v is None:
            return UNKNOWN
        if not v:
            return (E.NA, None)
        return store.get(path, UNKNOWN)

    if initial:
        triggered = True
        changed = set()
    else:
        changed, unsure = change
        if unsure & inputs:
            return []
        triggered = bool(changed & inputs)

    def prev(path):
        # LAG is judged where the property and doc/QUERY.md pin it down: at an evaluation caused by a change of that
        # signal it is the value before the change; and once THIS subscription has been sent a response for the
        # round in which the signal last changed, the previous value has caught up with the current one (QUERY.md
        # 2.1: "LAG() == current value until the next change") - whatever other subscriptions exist
        v = visible(path)
        if v is None:
            return UNKNOWN
        if not v:
            return (E.NA, None)
        if path in changed:
            return before.get(path, UNKNOWN)
        if s.get("synced", {}).get(path) is True:
            return store.get(path, UNKNOWN)
        return UNKNOWN

    if not triggered:
        STATS["rounds judged: no input signal changed"] += 1
        if got:
            fails.append("C12-trigger: subscription %d (%s) got a response although none of its signals changed" % (
                s["h"], s["sql"]))
        return fails
    w = True if tw is None else truth(tw, cur, prev)
    STATS["rounds judged: condition " + ("not judged (tolerance band / NaN-inf / LAG of an unchanged signal / "
                                          "declined comparison)" if w == UNKNOWN
                                          else "without truth value (unavailable operand)" if w == NULL
                                          else "true" if w else "false")] += 1
    if w == UNKNOWN:
        if got and tw is not None:
            # a comparison the broker may decline was answered: the answer has to be the mathematically right one
            global DECLINED_IS_UNKNOWN
            DECLINED_IS_UNKNOWN = False
            try:
                w2 = truth(tw, cur, prev)
            finally:
                DECLINED_IS_UNKNOWN = True
            if w2 is False:
                STATS["rounds judged: a declinable comparison answered wrongly"] += 1
                fails.append("C12-where: subscription %d (%s) got a response although its condition is false (a comparison "
                             "between a 64-bit integer and a float that the broker may decline, but not answer wrongly)" % (
                                 s["h"], s["sql"]))
        return fails
    if w is not True:
        if got:
            fails.append("C12-where: subscription %d (%s) got a response although its condition %s" % (
                s["h"], s["sql"], "is false" if w is False else "has no truth value (an ordering comparison with "
                                                               "an unavailable operand)"))
        return fails
    if (tw is not None and not clean(tw, cur, prev)) or \
            any(t[0] not in ("sig", "lit") and not clean(t, cur, prev) for (_n, t) in tp):
        # true in three-valued logic although a part has no truth value or is not judged (NULL OR TRUE):
        # the broker reports nothing in that case; the "must report" direction is not judged
        return fails
    vals = [(n, evaluate(t, cur, prev)) for (n, t) in tp]
    if any(v == UNKNOWN for (_n, v) in vals):
        judged = [(n, v) for (n, v) in vals]
    else:
        judged = vals
    if not got:
        if all(v != UNKNOWN for (_n, v) in vals):
            fails.append("C12-where: subscription %d (%s) got no response although a signal it refers to changed and its "
                         "condition holds" % (s["h"], s["sql"]))
        return fails
    fs = got[0]
    if s.get("sdv"):
        # through the sdv handler a response is a map name -> datapoint
        judged = as_map(judged)
        fs = as_map(fs)
    if [n for n, _ in fs] != [n for n, _ in judged]:
        fails.append("C12-names: subscription %d (%s) got fields %s, expected %s" % (
            s["h"], s["sql"], [n for n, _ in fs], [n for n, _ in judged]))
        return fails
    for (n, v), (_n2, exp) in zip(fs, judged):
        if exp == UNKNOWN:
            continue
        if not H.same_bits(v, exp) and not (v[0] == exp[0] and v[0] in (E.F32, E.F64) and E.exact(*v) == E.exact(*exp)):
            fails.append("C12-value: subscription %d (%s): field %s is %s, SQL semantics give %s" % (
                s["h"], s["sql"], n, E.show_val(v), E.show_val(exp)))
    return fails


def pretty(lines):
    out = []
    for d in parse_lines(lines):
        if d["name"] == "SUBQ":
            out.append("SUBSCRIBE-QUERY p%d %r%s%s" % (d["p"], d["sql"], " (free text)" if d["extras"] & 64 else "",
                                                        " (through sdv Subscribe)" if d.get("sdv") else ""))
        elif d["name"] == "QDROP":
            out.append("QUERY-DROP %d" % d["h"])
        else:
            out.append(H.show_op(d))
    return out


# ---------------------------------------------------------------- C03 on query results
def disclosure_monitor(lines, out):
    """no value of a signal in a query response unless the subscriber's token grants read on it and has not
    expired (C03, "or a query result"): every projected plain signal (or LAG of one) of every response is looked
    up in the permission oracle; what the condition reveals is not judged here"""
    al = split_outputs(lines, out)
    if al is None:
        return []
    fails = []
    P = H.Principals()
    subs = {}
    ticked = False
    for d, o in al:
        name = d["name"]
        if not o or o[0] in ([-1], [-77], [-66]):
            continue
        if name == "PERM":
            P.add(d["scope"], d["exp"])
        elif name == "TICK":
            ticked = True
        rows = []
        if name == "SUBQ" and o[0][:1] == [0] and len(o[0]) > 1:
            q = d.get("query")
            if q is not None:
                # field name -> the signal it shows: a plain identifier is reported under its path or its alias (LAG
                # fields and computed ones are left to C12's reading; through the sdv handler a response is a map,
                # so fields are matched by name, not by position)
                shown = {}
                for it in q[0]:
                    e = strip(it[1]) if it[0] != "wild" else None
                    if e is not None and e[0] == "id":
                        shown[it[2] if it[0] == "alias" else e[1]] = e[1]
                subs[o[0][1]] = (d["p"], shown, d["sql"])
            rows = o[1:]
        elif name == "UPDATE":
            rows = o[1:]
        for l in rows:
            if not l or l[0] != 110:
                continue
            try:
                h, fs = dec_response(l)
            except (IndexError, TypeError, ValueError):
                continue
            if h not in subs:
                continue
            p, shown, sql_text = subs[h]
            for (fname, v) in fs:
                path = shown.get(fname)
                if path is None or v[0] == E.NA:
                    continue
                c = P.can(p, "read", path, ticked)
                if c is False:
                    fails.append("C03-query: subscription %d of p%d (%s) was sent the value of %s, which its token %s" % (
                        h, p, sql_text, path, "cannot read (or that has expired)"))
    return fails

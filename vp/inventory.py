"""Panic-site inventory (C18): every panic-capable construct in the production code of the request
path, with the reason why no request can reach or trigger it.  A construct that appears in the
source but not in the committed inventory (panic_inventory.json) means that the statement
"no handler panics" is no longer known to hold for the current source."""
import json, os, re

ROOT = "/repo/databroker/src"
FILES = ["grpc/kuksa_val_v1/val.rs", "grpc/kuksa_val_v1/conversions.rs", "grpc/kuksa_val_v2/val.rs",
         "grpc/kuksa_val_v2/conversions.rs", "grpc/sdv_databroker_v1/broker.rs", "grpc/sdv_databroker_v1/collector.rs",
         "grpc/sdv_databroker_v1/conversions.rs", "grpc/server.rs", "query/compiler.rs", "query/executor.rs",
         "query/expr.rs", "viss/server.rs", "viss/v2/server.rs", "viss/v2/conversions.rs", "viss/v2/types.rs",
         "broker.rs", "glob.rs", "permissions.rs", "types.rs", "vss.rs", "authorization/mod.rs",
         "authorization/jwt/decoder.rs", "authorization/jwt/scope.rs"]
PAT = re.compile(r"\.unwrap\(\)|\.expect\(|\btodo!|\bunimplemented!|\bpanic!|\bunreachable!|\bassert!|\bassert_eq!|"
                 r"\bdebug_assert!|\[[a-z_*][a-z_0-9*. ]*\]|\[\d+\]|\.remove\(0\)|\bas usize\]|"
                 r"\.truncate\(|\.split_at\(|\.split_off\(|\.drain\(|\.swap_remove\(|\[\.\.|\.\.\]|_unchecked\(|"
                 r"\bDuration::new\(|\bUNIX_EPOCH \+|\.copy_from_slice\(")
STRLIT = re.compile(r'"(?:\\.|[^"\\])*"')
TEST_START = re.compile(r"^\s*#\[(cfg\(test\)|test|tokio::test)")
INDEX = re.compile(r"\[[a-z_*][a-z_0-9*. ]*\]|\[\d+\]")


def scan():
    """-> list of (file, function, normalized line)"""
    sites = []
    for f in FILES:
        p = os.path.join(ROOT, f)
        if not os.path.exists(p):
            continue
        fn = "?"
        for line in open(p, encoding="utf-8"):
            if TEST_START.match(line):
                break
            m = re.search(r"\bfn\s+(\w+)", line)
            if m:
                fn = m.group(1)
            raw = line.split("//")[0]
            code = STRLIT.sub('""', raw)
            if "#[" in code and "]" in code and not PAT.search(code.replace("#[", "")):
                continue
            hit = PAT.search(code)
            if not hit:
                continue
            if INDEX.fullmatch(hit.group(0)) and re.search(r"#\[|\bvec!\[|: \[|&\[|\[u8\]|-> \[", code) \
                    and not re.search(r"\w\[[a-z_*0-9][^\]]*\]", code):
                continue
            sites.append((f, fn, " ".join(raw.split())))
    return sites


def load(path="/verif/panic_inventory.json"):
    return json.load(open(path))


def compare():
    """-> (new sites not in the inventory, inventory entries no longer in the source)"""
    inv = load()
    known = {(e["file"], e["line"]) for e in inv["sites"]}
    cur = scan()
    cur_keys = {(f, l) for f, _fn, l in cur}
    new = [(f, fn, l) for f, fn, l in cur if (f, l) not in known]
    gone = sorted(known - cur_keys)
    return new, gone, len(cur)


if __name__ == "__main__":
    for s in scan():
        print(s)
